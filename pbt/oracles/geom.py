"""Exact rational geometry (fractions.Fraction on the exact values of the input floats).

No decision in here uses floating point or a square root: distances are compared squared.
"""
from fractions import Fraction as F
import math


def fr(x):
    return F(x)


def pt(p):
    return (F(p[0]), F(p[1]))


def sqdist_point_segment(p, a, b):
    """Exact squared distance from point p to segment ab (all (Fraction, Fraction))."""
    px, py = p
    ax, ay = a
    bx, by = b
    dx, dy = bx - ax, by - ay
    ll = dx * dx + dy * dy
    if ll == 0:
        return (px - ax) ** 2 + (py - ay) ** 2
    t = ((px - ax) * dx + (py - ay) * dy) / ll
    if t <= 0:
        return (px - ax) ** 2 + (py - ay) ** 2
    if t >= 1:
        return (px - bx) ** 2 + (py - by) ** 2
    cross = (px - ax) * dy - (py - ay) * dx
    return cross * cross / ll


def liang_barsky(p, q, xmin, ymin, xmax, ymax):
    """Exact parametric clip of segment pq against the closed rectangle.
    Returns (t0, t1) with 0 <= t0 <= t1 <= 1, or None when no point of the segment is inside."""
    t0, t1 = F(0), F(1)
    dx, dy = q[0] - p[0], q[1] - p[1]
    for pk, qk in ((-dx, p[0] - xmin), (dx, xmax - p[0]), (-dy, p[1] - ymin), (dy, ymax - p[1])):
        if pk == 0:
            if qk < 0:
                return None
            continue
        r = qk / pk
        if pk < 0:
            if r > t1:
                return None
            if r > t0:
                t0 = r
        else:
            if r < t0:
                return None
            if r < t1:
                t1 = r
    return t0, t1


def lerp(p, q, t):
    return (p[0] + (q[0] - p[0]) * t, p[1] + (q[1] - p[1]) * t)


def sqdist_point_rect(p, xmin, ymin, xmax, ymax):
    dx = max(xmin - p[0], 0, p[0] - xmax)
    dy = max(ymin - p[1], 0, p[1] - ymax)
    return dx * dx + dy * dy


def ulp_step(x, n):
    """x moved by n units in the last place (n may be negative)."""
    for _ in range(abs(n)):
        x = math.nextafter(x, math.inf if n > 0 else -math.inf)
    return x


# ------------------------------------------------------------------ cubic Bezier (blossom)
def blossom(ctrl, u, v, w):
    """Polar form b(u, v, w) of the cubic with control points ctrl (exact)."""
    p0, p1, p2, p3 = ctrl

    def mix(a, b, t):
        return (a[0] + (b[0] - a[0]) * t, a[1] + (b[1] - a[1]) * t)
    q0, q1, q2 = mix(p0, p1, u), mix(p1, p2, u), mix(p2, p3, u)
    r0, r1 = mix(q0, q1, v), mix(q1, q2, v)
    return mix(r0, r1, w)


def restrict(ctrl, a, b):
    """Control points of the cubic restricted to the parameter interval [a, b]."""
    return (blossom(ctrl, a, a, a), blossom(ctrl, a, a, b), blossom(ctrl, a, b, b), blossom(ctrl, b, b, b))
