"""Reference models of the EBB firmware step accumulator (pure Python integers).

Nothing here imports plotink, mpmath or floats.  The literal tick loops are the oracles of
record; the closed forms stand in for them when T is too large to loop and are asserted
equal to the loops wherever both are run (a disagreement is a HarnessError).
"""
from pbt.sut import HarnessError

W = 1 << 31
M = W - 1
LOOP_LIMIT = 4096


def tz(a, b):
    """a / b truncated toward zero (b > 0)."""
    q = abs(a) // b
    return q if a >= 0 else -q


# ---------------------------------------------------------------- LT / LM (second order)
def lt_r0(rate, accel):
    return rate - tz(accel, 2)


def lt_rate(rate, accel, k):
    """Rate added to the accumulator at tick k (k >= 1)."""
    return lt_r0(rate, accel) + k * accel


def lt_clear(rate, accel):
    r1 = lt_rate(rate, accel, 1)
    if r1 < 0:
        return M
    if r1 == 0 and accel < 0:      # second tick rate is r1 + accel = accel
        return M
    return 0


def lt_total(rate, accel, ticks, acc0):
    """Unreduced accumulator after `ticks` ticks."""
    return acc0 + ticks * lt_r0(rate, accel) + accel * ticks * (ticks + 1) // 2


def lt_loop(rate, accel, ticks, acc0):
    r = rate - tz(accel, 2)
    total = acc0
    for _ in range(ticks):
        r += accel
        total += r
    return total


def lt_expected(rate, accel, ticks, accum):
    """(position, accumulator, loop_validated) for a timed move."""
    acc0 = lt_clear(rate, accel) if accum == "clear" else accum
    total = lt_total(rate, accel, ticks, acc0)
    looped = False
    if ticks <= LOOP_LIMIT:
        looped = True
        if lt_loop(rate, accel, ticks, acc0) != total:
            raise HarnessError("LT closed form != tick loop for %r" % ((rate, accel, ticks, accum),))
    return total // W, total % W, looped


def lt_rate_range(rate, accel, ticks):
    """(min, max) of the per-tick rate over ticks 1..T."""
    a = lt_rate(rate, accel, 1)
    b = lt_rate(rate, accel, ticks)
    return min(a, b), max(a, b)


# ---------------------------------------------------------------- T3 (third order)
def t3_r0(rate, accel, jerk):
    return rate - tz(accel, 2) + tz(jerk, 6)


def t3_q(accel, jerk, k):
    """r_k - r_0."""
    return k * accel + jerk * k * (k - 1) // 2


def t3_rate(rate, accel, jerk, k):
    return t3_r0(rate, accel, jerk) + t3_q(accel, jerk, k)


def t3_clear(rate, accel, jerk):
    for k in (1, 2, 3):
        r = t3_rate(rate, accel, jerk, k)
        if r < 0:
            return M
        if r > 0:
            return 0
    return 0


def t3_total(rate, accel, jerk, ticks, acc0):
    return (acc0 + ticks * t3_r0(rate, accel, jerk) + accel * ticks * (ticks + 1) // 2
            + jerk * (ticks + 1) * ticks * (ticks - 1) // 6)


def t3_loop(rate, accel, jerk, ticks, acc0):
    """Literal recurrence: returns (total, final rate, max |rate|)."""
    r = rate - tz(accel, 2) + tz(jerk, 6)
    a = accel
    total = acc0
    peak = 0
    for _ in range(ticks):
        r += a
        a += jerk
        total += r
        if abs(r) > peak:
            peak = abs(r)
    return total, r, peak


def t3_vertex_candidates(accel, jerk, ticks):
    """Integer ticks in [1, T] at which q(k) can be extremal: ends + integers around the
    vertex of the parabola, k* = 1/2 - accel/jerk."""
    cands = {1, ticks}
    if jerk != 0:
        # k* = (jerk - 2 accel) / (2 jerk); floor in exact integers
        num, den = jerk - 2 * accel, 2 * jerk
        if den < 0:
            num, den = -num, -den
        fl = num // den
        for k in (fl - 1, fl, fl + 1, fl + 2):
            if 1 <= k <= ticks:
                cands.add(k)
    return sorted(cands)


def t3_q_range(accel, jerk, ticks):
    vals = [t3_q(accel, jerk, k) for k in t3_vertex_candidates(accel, jerk, ticks)]
    return min(vals), max(vals)


def t3_peak(rate, accel, jerk, ticks):
    """max over k in 1..T of |r_k| (exact)."""
    r0 = t3_r0(rate, accel, jerk)
    return max(abs(r0 + t3_q(accel, jerk, k)) for k in t3_vertex_candidates(accel, jerk, ticks))


def t3_expected(rate, accel, jerk, ticks, accum):
    """(position, accumulator, end rate, peak, loop_validated)."""
    acc0 = t3_clear(rate, accel, jerk) if accum == "clear" else accum
    total = t3_total(rate, accel, jerk, ticks, acc0)
    r_end = t3_rate(rate, accel, jerk, ticks)
    peak = t3_peak(rate, accel, jerk, ticks)
    looped = False
    if ticks <= LOOP_LIMIT:
        looped = True
        if t3_loop(rate, accel, jerk, ticks, acc0) != (total, r_end, peak):
            raise HarnessError("T3 closed form != tick loop for %r" %
                               ((ticks, rate, accel, jerk, accum),))
    return total // W, total % W, r_end, peak, looped


# ---------------------------------------------------------------- LM duration (step limited)
def lm_kstar(rate, accel):
    """Last tick (>= 0) whose rate has the sign of the *first moving tick* or is zero, or
    None when the rate never changes sign.  Before/at k* the position is monotone in one
    direction, after it in the other."""
    r1 = lt_rate(rate, accel, 1)
    if accel == 0:
        return None
    # direction of first motion
    first = r1 if r1 != 0 else accel          # r2 = r1 + accel
    if (first > 0) == (accel > 0):
        return None                            # accelerating away from zero: no reversal
    # r_k = r1 + (k-1) accel keeps sign(first) or is zero while (k-1)|accel| <= |r1|
    return 1 + abs(r1) // abs(accel)


def lm_steps_at(rate, accel, acc0, t, kstar):
    """Motor steps taken (both directions) during ticks 1..t: total variation of floor(A/W)."""
    if kstar is None or t <= kstar:
        return abs(lt_total(rate, accel, t, acc0) // W - acc0 // W)
    p_rev = lt_total(rate, accel, kstar, acc0) // W
    return abs(p_rev - acc0 // W) + abs(lt_total(rate, accel, t, acc0) // W - p_rev)


def lm_steps_loop(rate, accel, acc0, budget, limit):
    """Literal per-tick step counter; returns first tick reaching the budget or None."""
    r = rate - tz(accel, 2)
    total = acc0
    pos = total // W
    steps = 0
    for t in range(1, limit + 1):
        r += accel
        total += r
        new = total // W
        steps += abs(new - pos)
        pos = new
        if steps >= budget:
            return t
    return None


def lm_expected(steps, rate, accel, accum, horizon=None, loop_limit=20000):
    """Expected (duration, position, accumulator, info) for calculate_lm, or None when the
    budget is not reached within `horizon` ticks (the generator never asks for that)."""
    if steps == 0 or (rate == 0 and accel == 0):
        return 0, 0, 0, {"cannot_move": True}
    if steps < 0:
        if rate < 0:
            return 0, 0, 0, {"cannot_move": True}
        steps, rate, accel = -steps, -rate, -accel
    acc0 = lt_clear(rate, accel) if accum == "clear" else accum
    kstar = lm_kstar(rate, accel)
    # least t with steps_at(t) >= steps: doubling then bisection (steps_at is monotone in t)
    hi = 1
    cap = horizon if horizon is not None else 1 << 40
    while lm_steps_at(rate, accel, acc0, hi, kstar) < steps:
        if hi >= cap:
            return None
        hi = min(hi * 2, cap)
    lo = hi // 2 if hi > 1 else 0       # steps_at(lo) < steps (or lo == 0)
    if lo > 0 and lm_steps_at(rate, accel, acc0, lo, kstar) >= steps:
        lo = 0
    while hi - lo > 1:
        mid = (lo + hi) // 2
        if lm_steps_at(rate, accel, acc0, mid, kstar) >= steps:
            hi = mid
        else:
            lo = mid
    t = hi
    total = lt_total(rate, accel, t, acc0)
    info = {"kstar": kstar, "reverses": kstar is not None and t > kstar,
            "acc0": acc0, "looped": False,
            "steps_before_reversal": (abs(lt_total(rate, accel, kstar, acc0) // W)
                                      if kstar is not None else None)}
    if t <= loop_limit:
        info["looped"] = True
        if lm_steps_loop(rate, accel, acc0, steps, t) != t:
            raise HarnessError("LM search != step loop for %r" % ((steps, rate, accel, accum),))
    return t, total // W, total % W, info
