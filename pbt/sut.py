"""Load plotink from the tree under test and call into it under control.

The tree is $VERIF_REPO (default /repo).  It is put first on sys.path so that the
current working tree is what gets imported, not whatever the venv's editable install
resolves to; the assertion below makes a wrong import a harness error (exit 2).
"""
import os
import sys

REPO = os.path.abspath(os.environ.get("VERIF_REPO", "/repo"))
GUARD = "PLOTINK_VERIF"            # recorded in MANIFEST.hooks; no source hook uses it today
os.environ.setdefault(GUARD, "1")

if sys.path[0] != REPO:
    sys.path.insert(0, REPO)


class HarnessError(Exception):
    """Something is wrong with the harness, not with plotink (exit 2)."""


class PropertyFailure(AssertionError):
    """The code under test disagreed with the oracle on an in-domain case."""

    def __init__(self, message, case=None, part=None):
        super().__init__(message)
        self.message = message
        self.case = case
        self.part = part


class Runaway(BaseException):
    """The code under test keeps polling a fake port that has nothing more to say (thousands of consecutive empty
    reads without a write in between): the call will never return.  A BaseException, so that a broad `except
    Exception` in the code under test cannot swallow it; the runner turns it into a property failure."""


class BudgetExceeded(Exception):
    """A call into plotink executed more lines than its deterministic budget."""


def load(name):
    """Import plotink.<name> from the tree under test."""
    import importlib
    mod = importlib.import_module("plotink." + name)
    path = os.path.abspath(mod.__file__)
    if not path.startswith(REPO + os.sep):
        raise HarnessError("plotink.%s imported from %s, not from %s" % (name, path, REPO))
    return mod


_PLOTINK_DIR = os.path.join(REPO, "plotink") + os.sep


def call_budget(fn, args=(), kwargs=None, line_budget=100000):
    """Call fn under a deterministic line-count watchdog (only plotink and
    ink_extensions frames are counted).  Raises BudgetExceeded past the budget."""
    kwargs = kwargs or {}
    count = [0]

    def local(frame, event, arg):
        if event == "line":
            count[0] += 1
            if count[0] > line_budget:
                raise BudgetExceeded("more than %d lines executed" % line_budget)
        return local

    def tracer(frame, event, arg):
        fname = frame.f_code.co_filename
        if fname.startswith(_PLOTINK_DIR) or "ink_extensions" in fname:
            return local
        return None

    old = sys.gettrace()
    sys.settrace(tracer)
    try:
        return fn(*args, **kwargs), count[0]
    finally:
        sys.settrace(old)


def call_sut(fn, *args, **kwargs):
    """Call plotink; an exception becomes a property failure ("must return")."""
    try:
        return fn(*args, **kwargs)
    except PropertyFailure:
        raise
    except RecursionError as exc:
        raise PropertyFailure("%s raised RecursionError" % getattr(fn, "__name__", fn)) from exc
    except Exception as exc:  # pylint: disable=broad-except
        raise PropertyFailure("%s raised %s: %s" % (getattr(fn, "__name__", fn),
                                                     type(exc).__name__, exc)) from exc


PROBE_VALUES = [False, True, 0, 1, None, "", "x", 2.5, -1]


def probe_options(probes):
    """Optional parameters that the tree under test has *beyond* the pinned signatures: call each function once per
    such parameter and probe value (result and exceptions ignored) before any property case runs.  A caller who uses
    a new option must not change what later default calls do - the properties quantify over every call, whatever
    other calls the process made before - so option state that leaks (a module-level table edited in place, a
    class-level list) shows up in the ordinary cases that follow.  On a tree without new parameters nothing is
    called.  `probes`: [(callable, [pinned parameter names], sample positional args), ...].
    Returns the list of "<function>(<param>=<value>)" calls made."""
    import copy
    import inspect
    done = []
    for fn, pinned, sample in probes:
        try:
            params = inspect.signature(fn).parameters
        except (TypeError, ValueError):
            continue
        for pname, par in params.items():
            if pname in pinned or pname in ("self", "cls") or par.default is inspect.Parameter.empty:
                continue
            if par.kind not in (par.POSITIONAL_OR_KEYWORD, par.KEYWORD_ONLY):
                continue
            values = [not par.default] if isinstance(par.default, bool) else \
                [v for v in PROBE_VALUES if not (v == par.default and type(v) is type(par.default))]
            for value in values:
                try:
                    args = sample() if callable(sample) else copy.deepcopy(list(sample))
                    call_budget(fn, tuple(args), {pname: value}, line_budget=200000)
                except BaseException as exc:  # pylint: disable=broad-except
                    if isinstance(exc, KeyboardInterrupt):
                        raise
                done.append("%s(%s=%r)" % (getattr(fn, "__qualname__", fn), pname, value))
    return done
