"""Table of the public request methods of EBB3 / EBBMotionWrap: argument strategies, a fixed
argument sample, documented failure value.  Shared by C04, C05, C06, C16."""
import inspect

import serial
from hypothesis import strategies as st

from pbt import sut
from pbt.fakes.port import FakePort, SerialFactory, patched
from pbt.fakes.board import Board

ebb3_serial = sut.load("ebb3_serial")
ebb3_motion = sut.load("ebb3_motion")

INT = st.one_of(st.sampled_from([0, 1, -1, 2, 255, 65535, 2147483647, -2147483647]),
                st.integers(-2147483647, 2147483647))
SMALL = st.integers(0, 7)
BIT = st.sampled_from([0, 1])
OPT_PIN = st.one_of(st.none(), st.integers(0, 7))
DELAY = st.one_of(st.sampled_from([0, 1, 100, 65535]), st.integers(0, 65535))
U16 = st.one_of(st.sampled_from([1, 65535, 0, 12000]), st.integers(0, 65535))

COMMAND_TEXTS = ["EM,1,1", "SM,10,0,0", "SP,1,100", "TP", "CS", "SC,4,12000", "PO,B,3,1", "SL,5,2",
                 "ST,abc", "HM,1000", "XM,100,5,-5", "R", "CU,1,0", " EM,0,0 ", "SR,1000\r", "T3,1,0,0,0,0,0,0",
                 # the rest of the documented command set, so that no name is special to the harness
                 "ES", "ES,1", " es ", "EM,0,0", "PD,B,3,0", "PO,B,3,1", "SE,1,512", "SN,5", "QN", "TR", "NI", "ND",
                 "CK,1,-1,2,-2,3,A,B", "AC,0,1", "C", "MW,1,2", "BL"]
QUERY_TEXTS = ["QL,3", "QS", "QE", "QC", "QG", "QT", "PI,B,2", "QB", "QP", "QM", " QS ", "QL,0\r", "V",
               "ES", "ES,1", "QR", "QU,1", "A", "I", "MR", "QN"]

NICK = st.one_of(st.text(alphabet="abcdefghijklmnopqrstuvwxyzABCDEFGHIJKLMNOPQRSTUVWXYZ0123456789 _-.", max_size=16),
                 st.text(alphabet="abAB01 %{}$()[]*+#@!", max_size=16),
                 st.sampled_from(["100% ink", "half 50%", "%s", "{0}", "Errol", "Errata 2", "ERR", "err", "Err"]))

# name -> (argument strategy as tuple strategy, fixed sample args, documented failure value, kind)
METHODS = {
    "command":            (st.tuples(st.sampled_from(COMMAND_TEXTS)), ("EM,1,1",), False, "status"),
    "query":              (st.tuples(st.sampled_from(QUERY_TEXTS)), ("QL,3",), None, "value"),
    "query_statusbyte":   (st.tuples(), (), None, "value"),
    "var_write":          (st.tuples(st.integers(0, 255), st.integers(0, 31)), (7, 3), False, "status"),
    "var_read":           (st.tuples(st.integers(0, 31)), (3,), None, "value"),
    "var_write_int32":    (st.tuples(st.integers(-2147483648, 2147483647), st.integers(0, 28)),
                           (-123456, 4), False, "status"),
    "var_read_int32":     (st.tuples(st.integers(0, 28)), (4,), None, "value"),
    "reboot":             (st.tuples(), (), False, "status"),
    "bootload":           (st.tuples(), (), False, "status"),
    "query_nickname":     (st.tuples(), (), None, "procedure"),
    "write_nickname":     (st.tuples(NICK), ("East",), False, "status"),
    "timed_pause":        (st.tuples(st.integers(-5, 2400)), (1600,), None, "procedure"),
    "xy_move":            (st.tuples(INT, INT, st.integers(1, 16777215)), (100, -50, 200), None, "procedure"),
    "abs_move":           (st.tuples(st.integers(2, 25000), st.one_of(st.none(), INT), st.one_of(st.none(), INT)),
                           (1000, 0, 500), None, "procedure"),
    "motors_disable":     (st.tuples(), (), None, "procedure"),
    "motors_enable":      (st.tuples(st.integers(-2, 8), st.integers(-2, 8)), (0, 2), None, "procedure"),
    "motors_query_enabled": (st.tuples(), (), None, "value"),
    "query_steps":        (st.tuples(), (), None, "value"),
    "clear_steps":        (st.tuples(), (), None, "procedure"),
    "clear_accumulators": (st.tuples(), (), None, "procedure"),
    "pen_lower":          (st.tuples(DELAY, OPT_PIN), (100, 2), None, "procedure"),
    "pen_raise":          (st.tuples(DELAY, OPT_PIN), (100, None), None, "procedure"),
    "dio_b_config":       (st.tuples(SMALL, BIT, BIT), (3, 1, 0), None, "procedure"),
    "dio_b_set":          (st.tuples(SMALL, BIT), (3, 0), None, "procedure"),
    "dio_b_read":         (st.tuples(SMALL), (2,), None, "value"),
    "pen_pos_down":       (st.tuples(U16), (12000,), None, "procedure"),
    "pen_pos_up":         (st.tuples(U16), (18000,), None, "procedure"),
    "pen_rate_down":      (st.tuples(U16), (400,), None, "procedure"),
    "pen_rate_up":        (st.tuples(U16), (400,), None, "procedure"),
    "servo_timeout":      (st.tuples(st.integers(0, 60000), st.one_of(st.none(), BIT)), (5000, 1), None,
                           "procedure"),
    "query_voltage":      (st.tuples(st.one_of(st.none(), st.integers(0, 1023))), (None,), None, "value"),
    "query_current":      (st.tuples(), (), (None, None), "value"),
}
NOT_REQUESTS = {"connect", "disconnect", "find_first", "record_error", "parse_version", "min_version"}


def unknown_public_methods():
    """Public methods the table does not know (reported in the evidence, never a violation)."""
    names = [n for n, _ in inspect.getmembers(ebb3_motion.EBBMotionWrap, inspect.isfunction)
             if not n.startswith("_")]
    return sorted(set(names) - set(METHODS) - NOT_REQUESTS)


def same_value(got, expected):
    """Failure-value comparison that tells False from None from 0."""
    if isinstance(expected, tuple):
        return isinstance(got, tuple) and len(got) == len(expected) and all(
            same_value(g, e) for g, e in zip(got, expected))
    return got is expected


PORT_NAME = "/dev/ttyACM0"
COMPORTS_ONE = [(PORT_NAME, "EiBotBoard", "USB VID:PID=04D8:FD92 LOCATION=1-1")]


def attach(obj, board, via_connect=True):
    """Give `obj` a FakePort backed by `board`, through the real connect() handshake."""
    port = FakePort(board)
    port.owner = obj
    if not via_connect:
        obj.port = port
        return port, True
    factory = SerialFactory({PORT_NAME: port})
    with patched((ebb3_serial, "comports", lambda: list(COMPORTS_ONE)),
                 (serial, "Serial", factory)):
        ok = obj.connect()
    return port, ok


def new_connected(board=None, version="3.0.2"):
    board = board or Board("ebb3", version=version)
    obj = ebb3_motion.EBBMotionWrap()
    port, ok = attach(obj, board)
    if not ok or obj.err is not None or obj.port is not port:
        raise sut.PropertyFailure("connect() to a conforming EBB with firmware %s failed: ok=%r err=%r"
                                  % (version, ok, obj.err))
    return obj, port, board
