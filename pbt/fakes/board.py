"""Simulated EiBotBoard behind a FakePort: a *conforming* device, in the EBB3 "future syntax"
(every reply starts with the request's name) or in the legacy syntax (data line + OK, OK for
commands, single line for the documented no-OK queries).

Written from the EBB command documentation quoted in plotink's docstrings; it shares no code
with plotink.  Every data line can carry a unique token so that misattribution of a reply to
another request is observable.
"""

NO_OK_QUERIES = {"a", "i", "mr", "pi", "qm", "qg", "v"}
LEGACY_QUERIES = {"qs", "qb", "qp", "ql", "qc", "qt", "qn", "qe", "qr", "qu"} | NO_OK_QUERIES
QE_CODE = {0: 0, 1: 16, 2: 8, 3: 4, 4: 2, 5: 1}      # EM resolution -> value QE reports


def split_request(data):
    """bytes written by the host -> (name, [args]) ; request text has a trailing CR."""
    text = data.decode("ascii", "replace").strip()
    parts = text.split(",")
    return text, parts[0].strip(), [p.strip() for p in parts[1:]]


class Board:
    def __init__(self, syntax="ebb3", version="3.0.2", nickname="", tokens=False, empties=None,
                 future=False, lenient=False):
        # syntax "ebb3": firmware that understands CU,10,1; it powers up in legacy syntax and
        # switches to the future syntax on CU,10,1 (future=True starts it there).
        # syntax "legacy": firmware that only ever speaks the legacy syntax.
        self.syntax = syntax
        self.future = bool(future) and syntax == "ebb3"
        self.lenient = lenient    # acknowledge commands even when their arguments are out of range
        self.version = version
        self.vars = [0] * 32
        self.nickname = nickname
        self.motor1 = 0           # 0 = disabled, 1 = enabled
        self.motor2 = 0
        self.mode = 1             # global microstep mode as an EM resolution code 1..5
        self.single_motor_ok = False   # CU,50,0 permits enabling only one motor
        self.received = []        # (name, args) of every request
        self.tokens = tokens
        self.token = 1000
        self.issued = []          # (request text, data token) for attribution checks
        self.empties = list(empties or [])   # empties to insert before successive lines
        self.steps = (0, 0)
        self.status = 0x3E
        self.voltage = (394, 300)
        self.pins = {}
        self.rejected = []

    # ------------------------------------------------------------------------------
    banner_prefix = "EBBv13_and_above EB"      # the hardware token differs between board generations

    def banner(self):
        return "%s Firmware Version %s" % (self.banner_prefix, self.version)

    def _tok(self, text):
        self.token += 7
        self.issued.append((text, self.token))
        return self.token

    def _lines(self, *lines):
        out = []
        for line in lines:
            n = self.empties.pop(0) if self.empties else 0
            out.extend([b""] * n)
            out.append(line.encode("ascii"))
        return out

    _raw_after_name = None

    def respond(self, data):
        text, name, args = split_request(data)
        # free-text commands (ST,<nickname>) take everything after the first comma verbatim
        self._raw_after_name = text.split(",", 1)[1] if "," in text else ""
        self.received.append((name, args))
        if not text:
            return []
        if self.syntax == "ebb3" and name.upper() == "CU" and len(args) >= 2 and args[0] == "10":
            self.future = args[1] == "1"
        if self.future:
            return self._respond_ebb3(text, name, args)
        return self._respond_legacy(text, name, args)

    # ---- state changes shared by both syntaxes --------------------------------------
    def _apply(self, name, args):
        """Apply a command's effect; return False if the arguments are malformed."""
        up = name.upper()
        try:
            if up == "SL":
                value = int(args[0])
                index = int(args[1]) if len(args) > 1 else 0
                if not (0 <= value <= 255 and 0 <= index <= 31):
                    return False
                self.vars[index] = value
            elif up == "ST":
                nick = self._raw_after_name if self._raw_after_name is not None else ",".join(args)
                if len(nick) > 16:
                    return False
                self.nickname = nick
            elif up == "EM":
                e1 = int(args[0])
                e2 = int(args[1]) if len(args) > 1 else None
                if not 0 <= e1 <= 5 or (e2 is not None and not 0 <= e2 <= 5):
                    return False
                if e1 != 0:
                    self.mode = e1
                    self.motor1 = 1
                else:
                    self.motor1 = 0
                if e2 is not None:
                    self.motor2 = 1 if e2 != 0 else 0
            elif up == "CU":
                if len(args) >= 2 and int(args[0]) == 50:
                    self.single_motor_ok = int(args[1]) == 0
            elif up == "CS":
                self.steps = (0, 0)
        except (ValueError, IndexError):
            return False
        return True

    def _query_data(self, text, name, args):
        """Data part of a query reply (without name / OK), or None if not a query."""
        up = name.upper()
        tok = self._tok(text) if self.tokens else None
        if up == "QL":
            try:
                index = int(args[0]) if args else 0
                self.vars[index]
            except (ValueError, IndexError):
                index = 0
            return str(self.vars[index]) if tok is None else str(tok % 256)
        if up == "QT":
            # a nickname is arbitrary text: every third token spells one that begins with "OK" (e.g. "OKeefe")
            # ... and every fifth one is a board without a nickname: the data line is blank
            if tok is not None and tok % 5 == 0:
                return ""
            return self.nickname if tok is None else ("OK%d" % tok if tok % 3 == 0 else "n%d" % tok)
        if up == "QE":
            m1 = QE_CODE[self.mode] if self.motor1 else 0
            m2 = QE_CODE[self.mode] if self.motor2 else 0
            return "%d,%d" % (m1, m2)
        if up == "QS":
            return "%d,%d" % (self.steps if tok is None else (tok, -tok))
        if up == "QC":
            return "%04d,%04d" % (self.voltage if tok is None else (tok % 1000, tok % 1024))
        if up == "QG":
            return "%02X" % (self.status if tok is None else tok % 256)
        if up == "QB":
            return "0" if tok is None else str(tok % 2)
        if up == "QP":
            return "1" if tok is None else str(tok % 2)
        if up == "QM":
            return "0,0,0,0"
        if up == "QN":
            return "0" if tok is None else str(tok)
        if up == "QR":
            return "1" if tok is None else str(tok % 2)
        if up == "QU":
            return "0" if tok is None else str(tok)
        if up == "PI":
            return "1" if tok is None else str(tok % 2)
        if up == "MR":
            return "071" if tok is None else "%03d" % (tok % 256)
        if up == "A":
            return "00:0713,02:0241" if tok is None else "00:%04d" % (tok % 1024)
        if up == "I":
            return "001,128,002,128,000" if tok is None else "%03d,128" % (tok % 256)
        if self.tokens:
            self.issued.pop()
        return None

    # ---- EBB3 future syntax ---------------------------------------------------------
    def _respond_ebb3(self, text, name, args):
        up = name.upper()
        if up == "V":
            return self._lines("%s,%s\r\n" % (name, self.banner()))
        data = self._query_data(text, name, args)
        if data is not None:
            sep = "," if data != "" or up == "QT" else ""
            return self._lines("%s%s%s\r\n" % (name, sep, data))
        if not self._apply(name, args) and not self.lenient:
            self.rejected.append(text)
            return self._lines("!5 Err: Parameter outside allowed range\r\n")
        return self._lines("%s\r\n" % name)

    # ---- legacy syntax --------------------------------------------------------------
    def _respond_legacy(self, text, name, args):
        low = name.lower()
        if low == "v":
            return self._lines(self.banner() + "\r\n")
        data = self._query_data(text, name, args)
        if data is not None:
            if low in ("pi", "qm", "mr", "a", "i"):
                data = "%s,%s" % (name.upper(), data)          # these echo their name in legacy syntax
            if low in NO_OK_QUERIES:
                return self._lines(data + "\r\n")
            return self._lines(data + "\r\n", "OK\r\n")
        if not self._apply(name, args) and not self.lenient:
            self.rejected.append(text)
            return self._lines("!5 Err: Parameter outside allowed range\r\n")
        return self._lines("OK\r\n")


class EchoBoard:
    """Conforming EBB3-framing device for arbitrary request names: a command `XX,...` is
    acknowledged `XX`, a query is answered `XX,<unique token>` (or without the comma)."""

    def __init__(self, reply_kind="data", empties=None):
        self.reply_kind = reply_kind
        self.token = 500
        self.issued = []
        self.empties = list(empties or [])
        self.received = []

    def respond(self, data):
        text, name, args = split_request(data)
        self.received.append(text)
        stripped = text.strip()
        if len(stripped) == 1 or (len(stripped) > 1 and stripped[1] == ","):
            qname = stripped[0]
        else:
            qname = stripped[:2]
        self.token += 13
        self.issued.append((text, self.token))
        n = self.empties.pop(0) if self.empties else 0
        if self.reply_kind == "ack":
            line = qname + "\r\n"
        elif self.reply_kind == "nocomma":
            line = "%s%d\r\n" % (qname, self.token)
        else:
            line = "%s,%d\r\n" % (qname, self.token)
        return [b""] * n + [line.encode("ascii")]
