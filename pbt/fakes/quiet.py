"""Keep plotink's logger from printing to stderr during checks; keep the records for inspection."""
import logging


class Capture(logging.Handler):
    def __init__(self):
        super().__init__(level=logging.DEBUG)
        self.records = []

    def emit(self, record):
        self.records.append(record)
        if len(self.records) > 2000:
            del self.records[:1000]


CAPTURE = Capture()
_log = logging.getLogger("plotink")
_log.addHandler(CAPTURE)
_log.propagate = False
_log.setLevel(logging.DEBUG)
