"""Scriptable fake serial port: the only surface plotink uses is write / readline / close /
reset_input_buffer / flushInput.  The harness owns every byte and every fault.

I/O operations are numbered within the current call (begin_call() resets the counter) so a
fault plan can say "raise at the 3rd I/O operation of this call".
"""
import collections

import serial

import errno as _errno

EXCEPTIONS = {
    # OS-level errors with the errno values a POSIX serial backend treats as "try again" - for a caller of
    # readline()/write() they are I/O exceptions like any other
    "OSError(EAGAIN)": lambda: OSError(_errno.EAGAIN, "Resource temporarily unavailable"),
    "OSError(EINTR)": lambda: OSError(_errno.EINTR, "Interrupted system call"),
    "BlockingIOError": lambda: BlockingIOError(_errno.EWOULDBLOCK, "would block"),
    "InterruptedError": lambda: InterruptedError(_errno.EINTR, "interrupted"),
    "SerialException(EAGAIN)": lambda: serial.SerialException(_errno.EAGAIN, "read failed: try again"),
    "SerialException": lambda: serial.SerialException("injected"),
    # what opening a port that another program holds raises (posix errno form, Windows wording)
    "SerialException(EBUSY)": lambda: serial.SerialException(
        _errno.EBUSY, "could not open port /dev/ttyACM0: [Errno 16] Device or resource busy: '/dev/ttyACM0'"),
    "SerialException(EACCES)": lambda: serial.SerialException(
        _errno.EACCES, "could not open port /dev/ttyACM0: [Errno 13] Permission denied: '/dev/ttyACM0'"),
    "SerialException(denied)": lambda: serial.SerialException(
        "could not open port 'COM3': PermissionError(13, 'Access is denied.', None, 5)"),
    "SerialTimeoutException": lambda: serial.SerialTimeoutException("injected write timeout"),
    "PortNotOpenError": lambda: serial.serialutil.PortNotOpenError(),
    "OSError": lambda: OSError(5, "injected I/O error"),
    "IOError": lambda: IOError("injected"),
    "RuntimeError": lambda: RuntimeError("injected"),
}
IDLE_READ_LIMIT = 5000     # consecutive empty reads without a write: no request of any tree waits that long
SERIAL_FAMILY = ["SerialException", "SerialTimeoutException", "PortNotOpenError"]
# error lines as the firmware words them (EBB command documentation)
ERROR_LINES = ["!8 Err: injected device error", "!0 Err: <text>", "!2 Err: TX Buffer overrun", "!3 Err: RX Buffer overrun",
               "!4 Err: Missing parameter(s)", "!5 Err: Need comma next, found: 'x'", "!6 Err: Invalid parameter value",
               "!7 Err: Extra parameter", "!8 Err: Unknown command 'ZZ:5A5A'", "!5 Err: Parameter outside allowed range",
               "!1 Err: Checksum incorrect, expected 123", "Err: bare error text", "!13 Err: buffer overrun (lower case)"]
ALL_EXC = list(EXCEPTIONS)


class FakePort:
    def __init__(self, board=None):
        self.board = board
        self.writes = []                       # every bytes object handed to write()
        self.rx = collections.deque()          # queued reply lines (b'' = one empty read)
        self.op = 0                            # I/O operations in the current call
        self.reads = 0
        self.total_reads = 0
        self.idle_reads = 0
        self.faults = {}                       # op index -> action tuple
        self.silent = False                    # drop all replies (device stopped answering)
        self.closed = False
        self.close_calls = 0
        self.log = []                          # ("w", bytes) / ("r", bytes) / ("x", name)
        self.write_attempts = 0
        self.mark = 0

    # ---- harness side ------------------------------------------------------------
    def begin_call(self, faults=None):
        self.op = 0
        self.reads = 0
        self.faults = dict(faults or {})
        self.mark = len(self.writes)
        self.attempts_mark = self.write_attempts
        self.log_mark = len(self.log)

    def written_in_call(self):
        return self.writes[self.mark:]

    # ---- pyserial side -----------------------------------------------------------
    def _next_op(self):
        idx = self.op
        self.op += 1
        return self.faults.pop(idx, None)

    def write(self, data):
        action = self._next_op()
        self.write_attempts += 1
        if action and action[0] == "raise":
            self.log.append(("x", action[1]))
            raise EXCEPTIONS[action[1]]()
        data = bytes(data)
        self.idle_reads = 0
        self.writes.append(data)
        self.log.append(("w", data))
        if action and action[0] == "silence":
            self.silent = True
        if self.board is not None and not self.silent:
            for line in self.board.respond(data):
                self.rx.append(line)
        return len(data)

    def readline(self):
        action = self._next_op()
        self.reads += 1
        self.total_reads += 1
        if action:
            kind = action[0]
            if kind == "raise":
                self.log.append(("x", action[1]))
                raise EXCEPTIONS[action[1]]()
            if kind == "silence":
                self.silent = True
                self.rx.clear()
            elif kind == "empty":
                # push n empty reads in front of whatever is queued
                for _ in range(action[1]):
                    self.rx.appendleft(b"")
            elif kind == "errline":
                text = action[1] if len(action) > 1 else "!8 Err: injected device error"
                self._replace_next(text.encode("ascii") + b"\r\n")
            elif kind == "nameerr":
                # reply that starts with the right name but carries an error text
                self._replace_next(action[1])
            elif kind == "wrongname":
                self._replace_next(b"ZZ,37\r\n")
            elif kind == "garbage":
                self._replace_next(action[1])
        line = self.rx.popleft() if self.rx else b""
        self.log.append(("r", line))
        if line == b"":
            self.idle_reads += 1
            if self.idle_reads > IDLE_READ_LIMIT:
                from pbt.sut import Runaway
                raise Runaway("%d consecutive empty reads and the request is still polling" % self.idle_reads)
        else:
            self.idle_reads = 0
        return line

    def _replace_next(self, line):
        # drop leading empties and the next real line, substitute `line`
        while self.rx and self.rx[0] == b"":
            self.rx.popleft()
        if self.rx:
            self.rx.popleft()
        self.rx.appendleft(line)

    close_raises = None                        # exception name: the device vanished, close() itself fails

    def close(self):
        self.close_calls += 1
        self.closed = True
        if self.close_raises:
            name, self.close_raises = self.close_raises, None
            self.log.append(("x", name))
            raise EXCEPTIONS[name]()

    reset_raises = None                        # exception name: flushing the input buffer fails (port half-open)

    def reset_input_buffer(self):
        if self.reset_raises:
            name, self.reset_raises = self.reset_raises, None
            self.log.append(("x", name))
            raise EXCEPTIONS[name]()
        self.rx.clear()

    def flushInput(self):  # noqa: N802  (pyserial 2 name used by ebb_serial.testPort)
        self.rx.clear()

    @property
    def in_waiting(self):
        """Bytes sitting in the receive buffer (pyserial's Serial.in_waiting)."""
        return sum(len(line) for line in self.rx)

    def inWaiting(self):  # noqa: N802  (pyserial 2 spelling)
        return self.in_waiting

    # attributes some code paths may touch (pyserial's Serial exposes the device name as .port / .name / .portstr)
    timeout = 1.0
    write_timeout = None
    is_open = True
    port = "/dev/ttyACM0"
    name = "/dev/ttyACM0"
    portstr = "/dev/ttyACM0"


class SerialFactory:
    """Stand-in for serial.Serial(name, timeout=...): hands out prepared FakePorts by name."""

    def __init__(self, ports=None, fail=None):
        self.ports = dict(ports or {})         # name -> FakePort
        self.fail = dict(fail or {})           # name -> exception name to raise on open
        self.opened = []

    def __call__(self, name=None, *args, **kwargs):
        self.opened.append(name)
        if name in self.fail:
            raise EXCEPTIONS[self.fail[name]]()
        if name not in self.ports:
            raise serial.SerialException("could not open port %r" % (name,))
        return self.ports[name]


class patched:
    """Context manager: replace module attributes (comports, serial.Serial) and restore them."""

    def __init__(self, *triples):
        self.triples = triples
        self.saved = []

    def __enter__(self):
        for obj, name, value in self.triples:
            self.saved.append((obj, name, getattr(obj, name)))
            setattr(obj, name, value)
        return self

    def __exit__(self, *exc):
        for obj, name, value in reversed(self.saved):
            setattr(obj, name, value)
        return False
