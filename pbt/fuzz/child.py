"""atheris child process: python -m pbt.fuzz.child <stage> <result.json> <corpus dir> [libFuzzer flags]

The oracle lives inside the target (the same body the Hypothesis parts use).  libFuzzer's exit path does
not run atexit handlers, so the result file is rewritten every few thousand executions and on failure.
A failing input is minimised here (byte-level ddmin against the same target) and reported as the decoded
case, which `./check <ID> --replay` understands.
"""
import json
import os
import sys


def main():
    stage, out_path, corpus = sys.argv[1:4]
    flags = sys.argv[4:]
    runs = 0
    seed = 1
    for flag in flags:
        if flag.startswith("-runs="):
            runs = int(flag.split("=", 1)[1])
        if flag.startswith("-seed="):
            seed = int(flag.split("=", 1)[1])
    import atheris
    from pbt.sut import PropertyFailure
    from pbt.runner import Ctx
    with atheris.instrument_imports(include=["plotink"]):
        from pbt.fuzz import targets
        prop_id, make = targets.TARGETS[stage]
        ctx = Ctx(prop_id, "thorough", seed)
        target = make(ctx)

    state = {"executions": 0, "completed": False, "failure": None}

    def dump():
        doc = {"executions": state["executions"], "nontrivial": ctx.classes.get("nontrivial", 0),
               "samples": ctx.samples[:5], "classes": dict(ctx.classes), "completed": state["completed"],
               "failure": state["failure"]}
        tmp = out_path + ".tmp"
        with open(tmp, "w", encoding="utf-8") as fh:
            json.dump(doc, fh)
        os.replace(tmp, out_path)

    def fails(data):
        try:
            target(data)
        except PropertyFailure as exc:
            return exc
        return None

    def minimise(data, exc):
        budget = 3000
        best, best_exc = data, exc
        chunk = max(1, len(best) // 2)
        while chunk >= 1 and budget > 0:
            i = 0
            progressed = False
            while i < len(best) and budget > 0:
                cand = best[:i] + best[i + chunk:]
                budget -= 1
                got = fails(cand)
                if got is not None:
                    best, best_exc = cand, got
                    progressed = True
                else:
                    i += chunk
            if not progressed:
                chunk //= 2
        return best, best_exc

    def test_one_input(data):
        state["executions"] += 1
        exc = fails(data)
        if exc is not None:
            data, exc = minimise(bytes(data), exc)
            state["failure"] = {"message": exc.message, "case": exc.case, "part": "fuzz:" + stage,
                                "input_hex": data.hex()}
            dump()
            sys.stdout.flush()
            os._exit(0)
        n = state["executions"]
        if runs and n >= runs - 1:
            state["completed"] = True
            dump()
        elif n % 5000 == 0:
            dump()

    dump()
    atheris.Setup([sys.argv[0], corpus] + flags, test_one_input)
    atheris.Fuzz()


if __name__ == "__main__":
    main()
