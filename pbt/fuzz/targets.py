"""Fuzz targets: stage name -> (property id, factory(ctx) -> callable(bytes)).

Two styles: (a) Hypothesis-in-the-loop - the property's own strategy is driven by libFuzzer's bytes through
`test.hypothesis.fuzz_one_input`, so coverage feedback steers the same structured generator and the same
oracle; (b) raw text - bytes are mapped onto a small alphabet, an independent strict classifier decides
which clause of the statement (if any) the text falls under, and only those clauses are asserted.
"""
import re
import struct


def _hypothesis_target(strategy, body, ctx):
    from hypothesis import given, settings, HealthCheck

    @settings(database=None, deadline=None, suppress_health_check=list(HealthCheck))
    @given(strategy)
    def test(case):
        body(ctx, case)

    return test.hypothesis.fuzz_one_input


def _mux(*targets):
    def run(data):
        if not data:
            return
        targets[data[0] % len(targets)](data[1:])
    return run


# ---------------------------------------------------------------- C05
def c05_framing(ctx):
    from pbt.props import c05
    return _hypothesis_target(c05.framing_cases(), c05.framing_body, ctx)


# ---------------------------------------------------------------- C11
def c11_vbscale(ctx):
    from pbt.props import c11
    return _hypothesis_target(c11.cases(), c11.body, ctx)


# ---------------------------------------------------------------- C12
C12_ALPHABET = "0123456789" * 2 + "..+-eE" + "pxinmctQq%" + " \t\n\r" + "_z,"
C12_VALID = re.compile(r"^[ \t\n\r]*([+-]?)(\d+\.?\d*|\.\d+)(?:[eE]([+-]?\d+))?(px|in|mm|cm|pt|pc|Q|q|%|)[ \t\n\r]*$")
C12_BAD_UNIT = re.compile(r"^[ \t\n\r]*[+-]?(\d+\.?\d*|\.\d+)(?:[eE][+-]?\d+)?(em|ex|mx|tm|zz|z|cz|nm|mi|ct|tc|pi|ip|xp|ee|me)"
                          r"[ \t\n\r]*$")


def c12_classify(text):
    """-> a c12 case dict, or None when the text falls under no clause of the statement."""
    m = C12_VALID.match(text)
    if m:
        sign, mant, exp, unit = m.groups()
        if "." in mant:
            ip, fp = mant.split(".")
        else:
            ip, fp = mant, ""
        digits = (ip + fp) or "0"
        num = int(digits)
        e10 = int(exp or 0) - len(fp)
        if abs(e10) > 400:
            return None
        if num:
            mag = len(digits.lstrip("0")) + e10
            if not -190 <= mag <= 190:
                return None
        if sign == "-":
            num = -num
        return {"text": text, "ref": 250, "sem": {"kind": "length", "num": num, "exp": e10, "unit": unit},
                "tags": []}
    if not any(ch.isdigit() for ch in text):
        return {"text": text, "ref": 250, "sem": {"kind": "malformed", "why": "without a numeric part"}, "tags": []}
    m = C12_BAD_UNIT.match(text)
    if m:
        return {"text": text, "ref": 250,
                "sem": {"kind": "malformed", "why": "with unsupported unit %r" % m.group(2)}, "tags": []}
    return None


def c12_lengths(ctx):
    from pbt.props import c12

    def raw(data):
        text = "".join(C12_ALPHABET[b % len(C12_ALPHABET)] for b in data[:40])
        case = c12_classify(text)
        if case is None:
            ctx.count("fuzz_dont_care")
            return
        c12.body(ctx, case)

    return _mux(raw, raw, _hypothesis_target(c12.cases(), c12.body, ctx))


# ---------------------------------------------------------------- C20
def _xml_char(ch):
    o = ord(ch)
    return o in (9, 10, 13) or 0x20 <= o <= 0xD7FF or 0xE000 <= o <= 0xFFFD or 0x10000 <= o <= 0x10FFFF


C20_ALPHABET = "&&&<>\"';#ampltgquos x1\r\n\t]!-[C"


def c20_escape(ctx):
    from pbt.props import c20

    def utf8(data):
        text = data.decode("utf-8", "ignore")
        text = "".join(ch for ch in text if _xml_char(ch))
        c20.body_xml(ctx, {"s": text, "lxml": False})

    def alphabet(data):
        text = "".join(C20_ALPHABET[b % len(C20_ALPHABET)] for b in data[:48])
        c20.body_xml(ctx, {"s": text, "lxml": False})

    def tokens(data):
        # one byte = one token of the Hypothesis alphabet (entities, specials, markup fragments, line ends)
        text = "".join(c20.TOKENS[b % len(c20.TOKENS)] for b in data[:24])
        c20.body_xml(ctx, {"s": text, "lxml": False})

    def duration(data):
        if len(data) < 9:
            return
        (value,) = struct.unpack("<d", data[1:9])
        millis = bool(data[0] & 1)
        if value != value or value < 0:
            return
        if data[0] & 2:
            value = float(int(value)) if value < 1e15 else value
        limit = 1e10 if millis else 1e7
        if value > limit:
            return
        c20.body_hms(ctx, {"d": value, "ms": millis})

    return _mux(utf8, alphabet, tokens, duration, _hypothesis_target(c20.durations(), c20.body_hms, ctx))


def _generic(module_name, strategy_name, body_name="body"):
    def make(ctx):
        import importlib
        mod = importlib.import_module("pbt.props." + module_name)
        return _hypothesis_target(getattr(mod, strategy_name)(), getattr(mod, body_name), ctx)
    return make


TARGETS = {
    "c03_moves": ("C03", _generic("c03", "cases")),
    "c08_clip": ("C08", _generic("c08", "cases")),
    "c09_reduce": ("C09", _generic("c09", "cases")),
    "c13_histories": ("C13", _generic("c13", "histories")),
    "c14_layouts": ("C14", _generic("c14", "layouts")),
    "c19_ports": ("C19", _generic("c19", "port_lists")),
    "c05_framing": ("C05", c05_framing),
    "c11_vbscale": ("C11", c11_vbscale),
    "c12_lengths": ("C12", c12_lengths),
    "c20_escape": ("C20", c20_escape),
}
