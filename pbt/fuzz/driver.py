"""Run an atheris (libFuzzer) stage for a property in a child process (thorough tier only).

A stage is a module pbt/fuzz/<name>.py exposing `test_one_input(data: bytes)` that raises
pbt.sut.PropertyFailure on an oracle disagreement, and `ID` (property id).  The child is run with
-runs=N -seed=S on a fresh corpus directory; a crash artifact is turned into a replay file by the
child itself (it re-runs the input and dumps the failing decoded case).  If atheris cannot be
imported the stage is recorded as "unavailable" and never turns into a violation.
"""
import json
import os
import shutil
import subprocess
import sys
import tempfile

ROOT = os.path.dirname(os.path.dirname(os.path.dirname(os.path.abspath(__file__))))


def run_stage(ctx, name, runs=300000, max_len=256):
    env = dict(os.environ)
    deps = os.path.join(ROOT, ".deps")
    env["PYTHONPATH"] = os.pathsep.join([ROOT, deps, env.get("PYTHONPATH", "")])
    probe = subprocess.run([sys.executable, "-c", "import atheris"], env=env, capture_output=True)
    if probe.returncode != 0:
        ctx.notes["fuzz_stage"] = "unavailable (atheris not importable)"
        return
    work = tempfile.mkdtemp(prefix="pbt-fuzz-")
    try:
        seed = ctx.seed if ctx.seed != 0 else 1
        out = os.path.join(work, "result.json")
        cmd = [sys.executable, "-m", "pbt.fuzz.child", name, out, os.path.join(work, "corpus"),
               "-runs=%d" % runs, "-seed=%d" % seed, "-max_len=%d" % max_len, "-print_final_stats=0",
               "-artifact_prefix=%s/" % work]
        os.makedirs(os.path.join(work, "corpus"))
        # starting corpus: besides the empty input libFuzzer always tries, a few deterministic pseudo-random blobs
        # of growing length, so that Hypothesis-in-the-loop targets (which need hundreds of choice bytes for one
        # structured case) start from complete cases instead of overruns
        import hashlib
        for k in range(24):
            length = 32 << (k % 8)
            blob = b""
            counter = 0
            while len(blob) < length:
                blob += hashlib.blake2b(("%s/%d/%d/%d" % (name, seed, k, counter)).encode(), digest_size=64).digest()
                counter += 1
            with open(os.path.join(work, "corpus", "seed%02d" % k), "wb") as fh:
                fh.write(blob[:length])
        res = subprocess.run(cmd, env=env, capture_output=True, text=True, cwd=ROOT, timeout=7200)
        info = {}
        if os.path.exists(out):
            with open(out, encoding="utf-8") as fh:
                info = json.load(fh)
        execs = info.get("executions", 0)
        ctx.notes["fuzz_stage"] = {"target": name, "runs_requested": runs, "executions": execs,
                                   "nontrivial": info.get("nontrivial", 0),
                                   "exit": res.returncode, "samples": info.get("samples", [])[:5]}
        ctx.count("fuzz_executions", execs)
        if info.get("failure"):
            from pbt.sut import PropertyFailure
            fail = info["failure"]
            raise PropertyFailure(fail["message"], case=fail["case"], part=fail.get("part", "fuzz"))
        if res.returncode != 0 and not info.get("completed"):
            from pbt.sut import HarnessError
            raise HarnessError("fuzz stage %s ended with exit %d:\n%s" %
                               (name, res.returncode, (res.stderr or "")[-1500:]))
    finally:
        shutil.rmtree(work, ignore_errors=True)
