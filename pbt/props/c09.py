"""C09 — vertex reduction keeps the path within tolerance of the original."""
import math
from fractions import Fraction as F

from hypothesis import strategies as st

from pbt import sut
from pbt.sut import call_sut
from pbt.oracles import geom

ID = "C09"
RULE = ("Vertex lists of 0..16 distinct list objects: integer lattice (exact), near-collinear random walks with "
        "noise well below / near / above the tolerance and back-steps (projections before and after the "
        "chord), gentle arcs, hooks, uniform; 15% repeated points, 20% closed; tolerance <= 0, tiny, "
        "comparable to the noise, huge. Oracle: the result is an identity-subsequence keeping first and last; "
        "every deleted vertex has exact rational distance < tolerance to the segment joining its surviving "
        "neighbours; unchanged for <= 2 vertices or tolerance <= 0; points_in_tolerance == (exact max distance "
        "< tol) == (max_dist_from_n_points < tol) outside a 1e-9 relative tie band (zero band on lattice "
        "inputs with dyadic tolerance, which pins the strictness of '<'). Non-trivial: >= 1 vertex deleted. "
        "Distinct = (vertices, tolerance).")
ASSUMPTIONS = [
    "the agreement of the fast predicate with the reference measurement is asserted for coordinates that are exactly "
    "representable as floats (the reference computes in floats); integer coordinates beyond 2^53 are judged by the "
    "exact oracle alone",
    "the statement is one-directional: it does not claim that as many vertices as possible are removed",
    "continuous inputs: distances within 1e-9 (relative) of the tolerance are don't-care",
]
REQUIRED_CLASSES = ["nontrivial", "lattice", "walk", "arc", "hook", "closed", "repeated_points", "tol<=0",
                    "len<=2", "run_of_deletions", "nothing_deleted", "predicate_true", "predicate_false",
                    "exact_tie", "almost_closed", "rescaled_by_power_of_two", "len>=66", "long_run", "far_chord", "vertices_as_tuples", "far_from_origin", "big_ints"]
QUICK_SHARDS = 4

plot_utils = sut.load("plot_utils")
_PROBE_PATH = [[0.0, 0.0], [1.0, 0.001], [2.0, 0.0], [3.0, 1.0], [4.0, 0.0]]
OPTION_PROBES = [(plot_utils.supersample, ["vertices", "tolerance"], [_PROBE_PATH, 0.01]),
                 (plot_utils.points_in_tolerance, ["input_points", "tolerance"], [_PROBE_PATH, 0.01]),
                 (plot_utils.max_dist_from_n_points, ["input_points"], [_PROBE_PATH])]

REL = F(1, 10 ** 9)


def exact_max_sq(points):
    a, b = geom.pt(points[0]), geom.pt(points[-1])
    return max(geom.sqdist_point_segment(geom.pt(p), a, b) for p in points[1:-1])


def body(ctx, case):
    mk = tuple if case.get("tuples") else list         # vertices as [x, y] lists or as (x, y) tuples
    pts = [mk(p) for p in case["points"]]             # fresh, distinct vertex objects
    tol = case["tol"]
    exact = bool(case.get("lattice"))
    classes = {case.get("kind", "other")}
    if exact:
        classes.add("lattice")
    if case.get("closed"):
        classes.add("closed")
    if case.get("almost_closed"):
        classes.add("almost_closed")
    if case.get("tuples"):
        classes.add("vertices_as_tuples")
    if case.get("moved"):
        classes.add("far_from_origin")
    if case.get("shift"):
        classes.add("rescaled_by_power_of_two")
    if len(pts) >= 66:
        classes.add("len>=66")
    if len({tuple(p) for p in pts}) < len(pts):
        classes.add("repeated_points")
    if tol <= 0:
        classes.add("tol<=0")
    if len(pts) <= 2:
        classes.add("len<=2")
    original = list(pts)
    work = list(pts)
    call_sut(plot_utils.supersample, work, tol)
    deleted = len(original) - len(work)
    if deleted >= 2:
        classes.add("run_of_deletions")
    if deleted == 0:
        classes.add("nothing_deleted")

    what = "supersample(%r, %r)" % (case["points"], tol)
    # identity subsequence keeping first and last
    idx = []
    pos = 0
    for v in work:
        while pos < len(original) and original[pos] is not v:
            pos += 1
        if pos == len(original):
            ctx.record(case, classes, deleted > 0)
            ctx.fail("%s: result %r is not an in-order subsequence of the same vertex objects" % (what, work),
                     case)
        idx.append(pos)
        pos += 1
    if original and (not work or work[0] is not original[0] or work[-1] is not original[-1]):
        ctx.record(case, classes, deleted > 0)
        ctx.fail("%s dropped the first or last vertex: %r" % (what, work), case)
    if any(list(v) != list(c) for v, c in zip(original, case["points"])):
        ctx.fail("%s modified vertex coordinates" % what, case)
    if (len(original) <= 2 or tol <= 0) and deleted:
        ctx.record(case, classes, True)
        ctx.fail("%s changed a list it must leave alone: %r" % (what, work), case)
    # every deleted vertex is closer than tol to the segment joining its surviving neighbours
    ftol = F(tol)
    # float conditioning: distances near `tol` are computed from cross products of coordinate differences of size
    # `extent`, so their relative error is about eps * extent / tol; the tie band grows accordingly
    extent = max([abs(F(c)) for p_ in original for c in p_] + [F(0)])
    rel = REL if (exact or tol <= 0) else max(REL, F(64, 2 ** 52) * extent / ftol)
    limit = ftol * ftol if exact else (ftol * (1 + rel)) ** 2
    for (ia, ib) in zip(idx, idx[1:]):
        a, b = geom.pt(original[ia]), geom.pt(original[ib])
        for k in range(ia + 1, ib):
            d2 = geom.sqdist_point_segment(geom.pt(original[k]), a, b)
            if not d2 < limit:
                ctx.record(case, classes, True)
                ctx.fail("%s deleted vertex %r, which is %.17g away from the surviving segment %r-%r "
                         "(tolerance %r)" % (what, original[k], math.sqrt(float(d2)), original[ia],
                                             original[ib], tol), case)

    # predicate vs reference measurement vs exact
    if len(original) >= 3 and tol > 0:
        d2 = exact_max_sq(original)
        t2 = ftol * ftol
        band = (not exact) and abs(d2 - t2) <= 4 * rel * max(d2, t2)
        fast = call_sut(plot_utils.points_in_tolerance, [list(p) for p in original], tol)
        expect = d2 < t2
        if d2 == t2:
            classes.add("exact_tie")
        classes.add("predicate_true" if expect else "predicate_false")
        if not band:
            if bool(fast) != expect:
                ctx.record(case, classes, deleted > 0)
                ctx.fail("points_in_tolerance(%r, %r) = %r but the exact maximum distance is %.17g"
                         % (case["points"], tol, fast, math.sqrt(float(d2))), case)
            ref = call_sut(plot_utils.max_dist_from_n_points, [list(p) for p in original])
            # the reference measures in floats (it returns one); coordinates that are not floats to begin with
            # (integers beyond 2^53) are outside what it can measure, so only the exact oracle judges them
            representable = all(F(float(c)) == F(c) for p_ in original for c in p_)
            if representable and extent < F(10) ** 150 and not (isinstance(ref, (int, float)) and
                                                                math.isfinite(ref)):
                # no products of these coordinates overflow, so the measurement is a finite number; NaN, infinity (or
                # no number at all) silently disagrees with the predicate
                ctx.record(case, classes, deleted > 0)
                ctx.fail("max_dist_from_n_points(%r) = %r, the exact maximum distance is %.17g (points_in_tolerance "
                         "with tolerance %r says %r)" % (case["points"], ref, math.sqrt(float(d2)), tol, fast), case)
            if isinstance(ref, float) and math.isfinite(ref) and representable:
                ref_band = abs(F(ref) ** 2 - t2) <= 4 * rel * max(d2, t2)
                if not ref_band and (ref < tol) != bool(fast):
                    ctx.record(case, classes, deleted > 0)
                    ctx.fail("points_in_tolerance(%r, %r) = %r disagrees with max_dist_from_n_points = %r"
                             % (case["points"], tol, fast, ref), case)
                if abs(F(ref) ** 2 - d2) > F(1, 10 ** 6) * max(d2, F(ref) ** 2) and d2 > 0:
                    ctx.count("reference_measurement_differs_from_exact")
        else:
            ctx.count("tie_band_skipped")
    ctx.record(case, classes, nontrivial=deleted > 0)


DYADIC_TOL = st.sampled_from([0.5, 1.0, 2.0, 0.25, 3.0, 5.0, 1.5, 8.0])


@st.composite
def cases(draw):
    kind = draw(st.sampled_from(["lattice", "lattice", "walk", "walk", "walk", "arc", "hook", "uniform",
                                 "tiny", "long_run", "far_chord", "big_ints"]))
    n = draw(st.one_of(st.integers(0, 4), st.integers(3, 16)))
    lattice = kind in ("lattice", "tiny", "long_run", "big_ints")
    pts = []
    if kind == "long_run":
        # a long removable run (60..200 vertices on a line, optionally with sub-tolerance wiggle), then a bend in
        # the last few vertices - and sometimes a second run after it
        m = draw(st.sampled_from([60, 63, 64, 65, 66, 70, 100, 127, 128, 129, 200]))
        wiggle = draw(st.booleans())
        tol = draw(st.sampled_from([0.5, 1.0, 2.0]))
        for i in range(m):
            pts.append([float(i), (0.25 if (wiggle and i % 3 == 1) else 0.0)])
        tail = draw(st.integers(1, 4))
        height = draw(st.sampled_from([1.0, 3.0, 8.0, 50.0]))
        for j in range(tail):
            pts.append([float(m + j), height * (1 if j % 2 == 0 else -1) * draw(st.sampled_from([1, 1, 0]))])
        if draw(st.booleans()):
            for i in range(draw(st.sampled_from([3, 64, 70]))):
                pts.append([float(m + tail + i), pts[-1][1] if i else pts[-1][1]])
    elif kind == "big_ints":
        # integer coordinates (device units) beyond 2^53: integer arithmetic is exact, conversion to float is not
        base_x = draw(st.sampled_from([2 ** 53, 2 ** 60, -2 ** 60, 10 ** 18, 0]))
        base_y = draw(st.sampled_from([2 ** 53, 2 ** 60, 0, 0, -10 ** 18]))
        x = y = 0
        for _ in range(max(n, 3)):
            x += draw(st.sampled_from([0, 1, 40, 1000, -40, 7]))
            y += draw(st.sampled_from([0, 0, 3, -3, 50, -50]))
            pts.append([base_x + x, base_y + y])
        tol = draw(st.sampled_from([1, 2, 10, 100]))
    elif kind == "far_chord":
        # a chord 1e5..1e9 times longer than the tolerance with vertices a few tolerances (or a fraction) off it
        length = 10.0 ** draw(st.integers(0, 4))
        tol = length / 10.0 ** draw(st.integers(5, 9))
        ang = draw(st.integers(0, 359)) * math.pi / 180
        ux, uy = math.cos(ang), math.sin(ang)
        x0, y0 = length * draw(st.integers(-3, 3)), length * draw(st.integers(-3, 3))
        pts = [[x0, y0]]
        for i in range(draw(st.integers(1, 4))):
            t = draw(st.sampled_from([0.1, 0.3, 0.5, 0.7, 0.9]))
            off = tol * draw(st.sampled_from([0.0, 0.3, 0.6, 0.9, 1.5, 2.3, 5.0, -2.3, -0.6, 30.0]))
            pts.append([x0 + t * length * ux - off * uy, y0 + t * length * uy + off * ux])
        pts.append([x0 + length * ux, y0 + length * uy])
    elif kind == "tiny":
        n = draw(st.integers(0, 3))
        pts = [[float(draw(st.integers(-3, 3))), float(draw(st.integers(-3, 3)))] for _ in range(n)]
        tol = draw(st.one_of(DYADIC_TOL, st.sampled_from([0.0, -1.0])))
    elif kind == "lattice":
        collinear = draw(st.booleans())
        x = y = 0
        for _ in range(n):
            if collinear:
                x += draw(st.sampled_from([0, 1, 1, 2, 3, -1]))
                y = draw(st.sampled_from([0, 0, 0, 1, -1, 2]))
            else:
                x += draw(st.integers(-3, 4))
                y += draw(st.integers(-3, 3))
            pts.append([float(x), float(y)])
        tol = draw(st.one_of(DYADIC_TOL, DYADIC_TOL, st.sampled_from([0.0, -1.0])))
    elif kind == "walk":
        scale = 10.0 ** draw(st.integers(-2, 3))
        tol = scale * draw(st.sampled_from([0.001, 0.01, 0.1, 1.0]))
        noise = tol * draw(st.sampled_from([0.0, 0.01, 0.5, 0.9, 1.1, 3.0]))
        ang = draw(st.integers(0, 359)) * math.pi / 180
        ux, uy = math.cos(ang), math.sin(ang)
        x = y = 0.0
        for _ in range(n):
            step = scale * draw(st.sampled_from([1.0, 1.0, 0.3, 2.5, 0.0, -0.4, -1.2]))
            off = noise * draw(st.integers(-8, 8)) / 8
            x += step * ux
            y += step * uy
            pts.append([x - off * uy, y + off * ux])
    elif kind == "arc":
        radius = 10.0 ** draw(st.integers(0, 3))
        dtheta = draw(st.sampled_from([0.002, 0.01, 0.03, 0.1, 0.3]))
        tol = radius * draw(st.sampled_from([1e-5, 1e-4, 1e-3, 1e-2]))
        start = draw(st.integers(0, 628)) / 100
        for i in range(n):
            pts.append([radius * math.cos(start + i * dtheta), radius * math.sin(start + i * dtheta)])
    elif kind == "hook":
        # chord in a generic direction, an interior vertex that overshoots one end by a little
        scale = 10.0 ** draw(st.integers(-1, 2))
        ex, ey = scale * draw(st.integers(-10, 10)), scale * draw(st.integers(-10, 10))
        tol = scale * draw(st.sampled_from([0.25, 0.5, 1.0, 2.0]))
        pts = [[0.0, 0.0]]
        for _ in range(max(n - 2, 1)):
            t = draw(st.sampled_from([-0.1, -0.02, 0.3, 0.7, 1.0, 1.01, 1.05, 1.2]))
            side = draw(st.integers(-6, 6)) / 4 * tol
            ln = math.hypot(ex, ey) or 1.0
            pts.append([t * ex - side * ey / ln, t * ey + side * ex / ln])
        pts.append([float(ex), float(ey)])
    else:
        scale = 10.0 ** draw(st.integers(-2, 3))
        pts = [[scale * draw(st.integers(-1000, 1000)) / 100, scale * draw(st.integers(-1000, 1000)) / 100]
               for _ in range(n)]
        tol = scale * draw(st.sampled_from([0.01, 1.0, 5.0, 100.0]))
    if pts and draw(st.integers(0, 6)) == 0:
        i = draw(st.integers(0, len(pts) - 1))
        pts.insert(i, list(pts[i]))
    closed = False
    if len(pts) >= 2 and draw(st.integers(0, 4)) == 0:
        pts.append(list(pts[0]))
        closed = True
    almost = False
    if not closed and len(pts) >= 3 and kind != "big_ints" and draw(st.integers(0, 7)) == 0:
        # a loop whose last vertex misses the first by float noise (non-zero, far below any sensible tolerance)
        size = max(max(abs(c) for p in pts for c in p), 1e-300)
        gap = size * draw(st.sampled_from([2.0 ** -30, 2.0 ** -40, 2.0 ** -50]))
        dx, dy = draw(st.sampled_from([(1, 0), (0, 1), (1, 1), (-1, 1), (-1, 0), (0, -1)]))
        pts.append([pts[0][0] + gap * dx, pts[0][1] + gap * dy])
        almost = True
        lattice = False
    if draw(st.integers(0, 11)) == 0:
        tol = draw(st.sampled_from([0.0, -1.0, 1e300]))
    shift = 0
    if tol not in (1e300,) and kind != "big_ints" and draw(st.integers(0, 2)) == 0:
        # the same drawing in other units: a power-of-two factor keeps every float operation exact, so the answer
        # must be the same subsequence; absolute thresholds inside the code show up here
        shift = draw(st.sampled_from([-60, -40, -30, -20, -10, 10, 20, 40, 60]))
        f = 2.0 ** shift
        pts = [[p[0] * f, p[1] * f] for p in pts]
        tol = tol * f
    moved = False
    if pts and tol not in (1e300,) and kind != "big_ints" and draw(st.integers(0, 3)) == 0:
        # the same drawing somewhere else on a large sheet / in other user units: translate by 1e3..1e8 extents.
        # Differences of neighbouring coordinates stay exactly representable relative to the offset (the tie band
        # is computed from the largest coordinate), but anything computed from ABSOLUTE coordinates loses digits
        size = max(max(abs(c) for p in pts for c in p), abs(tol), 1e-300)
        far = size * 10.0 ** draw(st.integers(3, 8))
        ox, oy = far * draw(st.sampled_from([1, -1, 1, 0])), far * draw(st.sampled_from([1, -1, 1]))
        pts = [[p[0] + ox, p[1] + oy] for p in pts]
        moved = True
        lattice = False
    return {"points": pts, "tol": tol, "lattice": lattice, "kind": kind, "closed": closed, "almost_closed": almost,
            "shift": shift, "tuples": draw(st.integers(0, 3)) == 0, "moved": moved}


def lattice_grid():
    """All 3-vertex and a family of 4-vertex paths on a small lattice x dyadic tolerances: decides the
    predicate (including exact ties) and single deletions exhaustively."""
    pts = [(x, y) for x in range(-2, 3) for y in range(-2, 3)]
    for a in [(0, 0)]:
        for b in pts:
            for c in pts:
                for tol in (0.5, 1.0, 2.0):
                    yield {"points": [[0.0, 0.0], [float(b[0]), float(b[1])], [float(c[0]), float(c[1])]],
                           "tol": tol, "lattice": True, "kind": "lattice"}
    for b in pts[::2]:
        for c in pts[::3]:
            for d in pts[::2]:
                yield {"points": [[0.0, 0.0], [float(b[0]), float(b[1])], [float(c[0]), float(c[1])],
                                  [float(d[0]), float(d[1])]], "tol": 1.0, "lattice": True, "kind": "lattice"}


def run(ctx):
    ctx.exhaustive("lattice-grid", lattice_grid(), body,
                   "all 3-vertex paths on a 5x5 lattice x 3 tolerances + a family of 4-vertex lattice paths")
    ctx.given("generated", cases(), body, quick=6000, thorough=800000)
    if ctx.thorough and ctx.shard == 0:
        from pbt.fuzz import driver
        driver.run_stage(ctx, "c09_reduce", runs=100000, max_len=4096)


def replay(ctx, part, case):
    body(ctx, case)
