"""C18 — travel-limit helpers return an in-range value and flag exactly the outliers."""
import itertools
import math
from fractions import Fraction as F

from hypothesis import strategies as st

from pbt import sut
from pbt.sut import call_sut

ID = "C18"
RULE = ("(value, lower <= upper, tolerance >= 0) from an exact half-integer lattice (all ties decided exactly), from "
        "dyadic floats over bound magnitudes 2^-10..2^40 with tolerances 0, 2^-30..2^3 and the value placed at each "
        "bound, bound +/- tolerance, one ulp either side of those, a fraction / multiple of the tolerance outside, "
        "far outside, and lower == upper; from decimal floats (non-representable sums); ints mixed with floats. "
        "Oracle in exact rationals: inside => the value itself, no flag; outside => the nearer bound; result "
        "always within [lower, upper]; checkLimits flag <=> outside; checkLimitsTol flag <=> outside by more than "
        "the tolerance (don't-care only when bound +/- tolerance is not a float and the value is within 2 ulp of "
        "it); point_in_bounds <=> neither coordinate flagged (also with its default tolerance 1e-9). Exhaustive "
        "on the lattice {-3..3 step 1/2}^4 and a 2-D lattice. Non-trivial: value outside or on a bound. Distinct = "
        "distinct argument tuples.")
ASSUMPTIONS = [
    "all arguments are finite numbers (no NaN, no infinities), lower <= upper, tolerance >= 0",
    "when bound +/- tolerance is not exactly representable, a value within 2 ulp of it is a don't-care for the "
    "tolerant flag (the float sum rounds); when it is representable the comparison is pinned exactly",
]
REQUIRED_CLASSES = ["nontrivial", "inside", "above", "below", "on_upper", "on_lower", "degenerate_range",
                    "at_upper_plus_tol", "at_lower_minus_tol", "within_tol", "beyond_tol", "tol_zero",
                    "large_bound_small_tol", "ulp_outside", "int_value", "pib_default_tol", "pib_inside",
                    "pib_outside", "pib_xmin_ne_ymin", "inexact_sum", "int_beyond_2^53",
                    "pib_bounds_object_reused"]
QUICK_SHARDS = 4

plot_utils = sut.load("plot_utils")
OPTION_PROBES = [(plot_utils.checkLimits, ["value", "lower_bound", "upper_bound"], [-5.0, 0.0, 300.0]),
                 (plot_utils.checkLimitsTol, ["value", "lower_bound", "upper_bound", "tolerance"], [-5.0, 0.0, 300.0, 1e-9]),
                 (plot_utils.constrainLimits, ["value", "lower_bound", "upper_bound"], [-5.0, 0.0, 300.0]),
                 (plot_utils.point_in_bounds, ["point", "bounds", "tolerance"], [[1.0, 2.0], [[0.0, 0.0], [5.0, 5.0]]])]



def ulp(x):
    return math.ulp(x)


def tol_flag(value, lo, hi, tol):
    """Exact three-valued oracle for the tolerant flag: True / False / None (don't care)."""
    v, l, h, t = F(value), F(lo), F(hi), F(tol)
    all_ints = all(isinstance(x, int) and not isinstance(x, bool) for x in (value, lo, hi, tol))
    if all_ints:                                           # integer arithmetic is exact at any magnitude
        return bool(v > h + t or v < l - t)
    for bound_sum, fsum, outside in ((h + t, float(hi) + float(tol), v > h + t),
                                     (l - t, float(lo) - float(tol), v < l - t)):
        exact_repr = F(fsum) == bound_sum
        if not exact_repr and abs(v - bound_sum) <= 2 * F(ulp(fsum)):
            return None
        if outside:
            return True
    return False


def clamp_expect(value, lo, hi):
    if F(value) > F(hi):
        return hi
    if F(value) < F(lo):
        return lo
    return value


def same(a, b):
    return not isinstance(a, bool) and isinstance(a, (int, float)) and F(a) == F(b)


def body(ctx, case):
    value, lo, hi, tol = case["v"], case["lo"], case["hi"], case["tol"]
    classes = set(case.get("tags", []))
    v, l, h, t = F(value), F(lo), F(hi), F(tol)
    outside = v > h or v < l
    classes.add("above" if v > h else ("below" if v < l else "inside"))
    if v == h:
        classes.add("on_upper")
    if v == l:
        classes.add("on_lower")
    if l == h:
        classes.add("degenerate_range")
    if t == 0:
        classes.add("tol_zero")
    if v == h + t and t > 0:
        classes.add("at_upper_plus_tol")
    if v == l - t and t > 0:
        classes.add("at_lower_minus_tol")
    if outside and (h < v <= h + t or l - t <= v < l):
        classes.add("within_tol")
    if v > h + t or v < l - t:
        classes.add("beyond_tol")
    if isinstance(value, int):
        classes.add("int_value")
    if max(abs(l), abs(h)) >= 1024 and t <= max(abs(l), abs(h)) / 10 ** 9:
        classes.add("large_bound_small_tol")
    if not all(isinstance(x, int) for x in (value, lo, hi, tol)) and \
            (F(float(hi) + float(tol)) != h + t or F(float(lo) - float(tol)) != l - t):
        classes.add("inexact_sum")
    if any(isinstance(x, int) and abs(x) > 2 ** 53 for x in (value, lo, hi)):
        classes.add("int_beyond_2^53")
    ctx.record(case, classes, nontrivial=outside or v == h or v == l)
    want = clamp_expect(value, lo, hi)
    args = "(%r, %r, %r" % (value, lo, hi)

    got = call_sut(plot_utils.checkLimits, value, lo, hi)
    if not (isinstance(got, tuple) and len(got) == 2 and same(got[0], want) and got[1] is outside):
        ctx.fail("checkLimits%s) = %r, expected (%r, %r)" % (args, got, want, outside), case)

    got = call_sut(plot_utils.constrainLimits, value, lo, hi)
    if not same(got, want):
        ctx.fail("constrainLimits%s) = %r, expected %r" % (args, got, want), case)

    got = call_sut(plot_utils.checkLimitsTol, value, lo, hi, tol)
    flag = tol_flag(value, lo, hi, tol)
    if not (isinstance(got, tuple) and len(got) == 2 and same(got[0], want) and isinstance(got[1], bool)):
        ctx.fail("checkLimitsTol%s, %r) = %r, expected value %r" % (args, tol, got, want), case)
    if flag is None:
        ctx.count("tol_flag_dont_care")
    elif got[1] is not flag:
        ctx.fail("checkLimitsTol%s, %r) = %r, expected flag %r (the value is %s the range by %s the tolerance)"
                 % (args, tol, got, flag, "outside" if outside else "inside",
                    "more than" if flag else "no more than"), case)


def body2d(ctx, case):
    x, y = case["p"]
    (x_min, y_min), (x_max, y_max) = case["b"]
    tol = case["tol"]
    classes = set(case.get("tags", []))
    eff_tol = 1e-9 if tol is None else tol
    if tol is None:
        classes.add("pib_default_tol")
    if x_min != y_min:
        classes.add("pib_xmin_ne_ymin")
    fx = tol_flag(x, x_min, x_max, eff_tol)
    fy = tol_flag(y, y_min, y_max, eff_tol)
    if fx is True or fy is True:
        want = False
    elif fx is None or fy is None:
        want = None
    else:
        want = True
    classes.add({True: "pib_inside", False: "pib_outside", None: "pib_dont_care"}[want])
    ctx.record(case, classes, nontrivial=want is False or x in (x_min, x_max) or y in (y_min, y_max))
    point, bounds = [x, y], [[x_min, y_min], [x_max, y_max]]
    if tol is None:
        got = call_sut(plot_utils.point_in_bounds, point, bounds)
    else:
        got = call_sut(plot_utils.point_in_bounds, point, bounds, tol)
    if want is not None and got is not want:
        ctx.fail("point_in_bounds(%r, %r%s) = %r, expected %r: the tolerant checker flags x: %r, y: %r"
                 % (point, bounds, "" if tol is None else ", %r" % tol, got, want, fx, fy), case)
    # the caller changes the SAME bounds object in place and asks again (same tolerance): the answer must follow
    # the new contents, not whatever was derived from the old ones
    if case.get("then"):
        nx, ny = case["then"]["p"]
        (nx_min, ny_min), (nx_max, ny_max) = case["then"]["b"]
        bounds[0][0], bounds[0][1], bounds[1][0], bounds[1][1] = nx_min, ny_min, nx_max, ny_max
        fx2 = tol_flag(nx, nx_min, nx_max, eff_tol)
        fy2 = tol_flag(ny, ny_min, ny_max, eff_tol)
        want2 = False if (fx2 is True or fy2 is True) else (None if (fx2 is None or fy2 is None) else True)
        ctx.count("bounds_object_reused")
        if tol is None:
            got2 = call_sut(plot_utils.point_in_bounds, [nx, ny], bounds)
        else:
            got2 = call_sut(plot_utils.point_in_bounds, [nx, ny], bounds, tol)
        if want2 is not None and got2 is not want2:
            ctx.fail("point_in_bounds(%r, %r%s) = %r, expected %r (the same bounds list held %r at the previous "
                     "call and was updated in place)" % ([nx, ny], bounds, "" if tol is None else ", %r" % tol, got2,
                                                         want2, case["b"]), case)
    # differential against the tolerant checker itself, outside the don't-care band
    if want is not None:
        cx = call_sut(plot_utils.checkLimitsTol, x, x_min, x_max, eff_tol)[1]
        cy = call_sut(plot_utils.checkLimitsTol, y, y_min, y_max, eff_tol)[1]
        if got is not (not (cx or cy)):
            ctx.fail("point_in_bounds(%r, %r, %r) = %r but checkLimitsTol flags x: %r, y: %r"
                     % (point, bounds, eff_tol, got, cx, cy), case)


# ------------------------------------------------------------------ generators
HALF = [k / 2 for k in range(-6, 7)]


def nudge(x, steps):
    for _ in range(abs(steps)):
        x = math.nextafter(x, math.inf if steps > 0 else -math.inf)
    return x


@st.composite
def scalar_cases(draw):
    tags = set()
    kind = draw(st.sampled_from(["lattice", "dyadic", "dyadic", "dyadic", "decimal", "decimal", "ints"]))
    if kind == "lattice":
        lo, hi = sorted([draw(st.sampled_from(HALF)), draw(st.sampled_from(HALF))])
        tol = draw(st.sampled_from([0, 0.5, 1.0, 1.5, 3.0]))
        value = draw(st.sampled_from(HALF + [-10.0, 10.0, hi + tol, lo - tol, hi + tol + 0.5, lo - tol - 0.5]))
        return {"v": value, "lo": lo, "hi": hi, "tol": tol, "tags": ["lattice"]}
    if kind == "ints" and draw(st.integers(0, 3)) == 0:
        # exact integers beyond 2^53 (not representable as floats): still "the value itself" / the nearer bound
        base = draw(st.sampled_from([2 ** 53, 2 ** 60, 10 ** 18, -2 ** 53, -10 ** 18, 2 ** 1024, 10 ** 400, -10 ** 400]))
        lo, hi = sorted([base + draw(st.integers(-9, 9)), base + draw(st.integers(-9, 9))])
        value = base + draw(st.integers(-12, 12))
        return {"v": value, "lo": lo, "hi": hi, "tol": draw(st.sampled_from([0, 1, 2])), "tags": ["ints", "big_ints"]}
    if kind == "ints":
        lo, hi = sorted([draw(st.integers(-1000, 1000)), draw(st.integers(-1000, 1000))])
        tol = draw(st.sampled_from([0, 1, 2, 10, 0.5]))
        value = draw(st.one_of(st.integers(-1100, 1100), st.sampled_from([lo, hi, lo - 1, hi + 1, hi + tol,
                                                                         lo - tol])))
        return {"v": value, "lo": lo, "hi": hi, "tol": tol, "tags": ["ints"]}
    if kind == "dyadic":
        mag = 2.0 ** draw(st.integers(-10, 40))
        a = draw(st.integers(-1024, 1024)) / 1024 * mag
        b = draw(st.integers(-1024, 1024)) / 1024 * mag
        if draw(st.integers(0, 7)) == 0:
            b = a
        lo, hi = min(a, b), max(a, b)
        tol = draw(st.sampled_from([0.0, 0.0, 2.0 ** -30, 2.0 ** -20, 2.0 ** -14, 2.0 ** -10, 2.0 ** -3, 1.0, 8.0,
                                    mag / 1024, mag * 2.0 ** -40]))
    else:
        mag = 10.0 ** draw(st.integers(-3, 9))
        a = draw(st.integers(-100000, 100000)) / 1000.0 * mag
        b = draw(st.integers(-100000, 100000)) / 1000.0 * mag
        if draw(st.integers(0, 7)) == 0:
            b = a
        lo, hi = min(a, b), max(a, b)
        tol = draw(st.sampled_from([0.0, 1e-9, 1e-9, 1e-6, 1e-3, 0.1, 0.3, 1.0, mag * 1e-9, mag * 1e-12, mag / 7]))
    side = draw(st.sampled_from(["hi", "hi", "lo", "lo", "free"]))
    if side == "free":
        span = (hi - lo) or mag
        value = lo + span * draw(st.integers(-2000, 3000)) / 1000.0
    else:
        bound, sgn = (hi, 1.0) if side == "hi" else (lo, -1.0)
        place = draw(st.sampled_from(["on", "ulp_in", "ulp_out", "at_tol", "tol_ulp_in", "tol_ulp_out", "frac_tol",
                                      "mult_tol", "tiny_out", "far"]))
        if place == "on":
            value = bound
        elif place == "ulp_in":
            value = nudge(bound, int(-sgn) * draw(st.integers(1, 3)))
        elif place == "ulp_out":
            value = nudge(bound, int(sgn) * draw(st.integers(1, 3)))
            tags.add("ulp_outside")
        elif place == "at_tol":
            value = bound + sgn * tol
        elif place == "tol_ulp_in":
            value = nudge(bound + sgn * tol, int(-sgn) * draw(st.integers(1, 3)))
        elif place == "tol_ulp_out":
            value = nudge(bound + sgn * tol, int(sgn) * draw(st.integers(1, 3)))
            tags.add("ulp_outside")
        elif place == "frac_tol":
            value = bound + sgn * tol * draw(st.sampled_from([0.25, 0.5, 0.75, 0.999]))
        elif place == "mult_tol":
            value = bound + sgn * tol * draw(st.sampled_from([1.001, 1.5, 2.0, 4.0, 8.0, 1000.0]))
        elif place == "tiny_out":
            # outside by an amount that is tiny relative to the bound but large relative to the tolerance
            value = bound + sgn * max(abs(bound), 1.0) * draw(st.sampled_from([2.0 ** -40, 2.0 ** -34, 2.0 ** -31,
                                                                             1e-10, 5e-10, 1e-12]))
            value = value + sgn * tol * 2
        else:
            value = bound + sgn * mag * draw(st.sampled_from([0.5, 1.0, 10.0, 1e6]))
    if draw(st.integers(0, 9)) == 0 and float(value).is_integer() and abs(value) < 2 ** 53:
        value = int(value)
    return {"v": value, "lo": lo, "hi": hi, "tol": tol, "tags": sorted(tags | {kind})}


def _float_compatible(c):
    """point_in_bounds mixes its coordinates with a float tolerance: integers too large for a float cannot take
    part in that arithmetic at all (int - float raises), so they are brought down to 10^18-sized ones."""
    nums = [c["v"], c["lo"], c["hi"]]
    if not any(isinstance(n, int) and abs(n) > 2 ** 1000 for n in nums):
        return c
    base = min(nums, key=abs)
    shift = (abs(base) - 10 ** 18) * (1 if base > 0 else -1)
    return dict(c, v=c["v"] - shift, lo=c["lo"] - shift, hi=c["hi"] - shift)


@st.composite
def point_cases(draw):
    cx = _float_compatible(draw(scalar_cases()))
    cy = _float_compatible(draw(scalar_cases()))
    tol = draw(st.sampled_from([cx["tol"], cy["tol"], None, None, 0.0, 1e-9]))
    if tol is None and draw(st.booleans()):
        # place a coordinate near bound +/- 1e-9, where the default tolerance decides
        which, c = draw(st.sampled_from([("x", cx), ("y", cy)]))
        bound, sgn = draw(st.sampled_from([(c["hi"], 1.0), (c["lo"], -1.0)]))
        c = dict(c)
        c["v"] = bound + sgn * draw(st.sampled_from([0.0, 5e-10, 9e-10, 1.1e-9, 2e-9, 1e-6]))
        if which == "x":
            cx = c
        else:
            cy = c
    case = {"p": [cx["v"], cy["v"]], "b": [[cx["lo"], cy["lo"]], [cx["hi"], cy["hi"]]], "tol": tol,
            "tags": sorted(set(cx["tags"]) | set(cy["tags"]))}
    if draw(st.integers(0, 2)) == 0:
        ox, oy = _float_compatible(draw(scalar_cases())), _float_compatible(draw(scalar_cases()))
        case["then"] = {"p": [draw(st.sampled_from([cx["v"], ox["v"]])), draw(st.sampled_from([cy["v"], oy["v"]]))],
                        "b": [[ox["lo"], oy["lo"]], [ox["hi"], oy["hi"]]]}
        case["tags"] = sorted(set(case["tags"]) | {"pib_bounds_object_reused"})
    return case


def lattice():
    for value, lo, hi, tol in itertools.product(HALF, HALF, HALF, [0, 0.5, 1.0, 1.5, 2.0, 2.5, 3.0]):
        if lo <= hi:
            yield {"v": value, "lo": lo, "hi": hi, "tol": tol, "tags": ["lattice"]}


RANGES = [(-1.0, 2.0), (0.0, 0.0), (0.5, 3.0), (-3.0, -1.5), (1.0, 1.5), (-2.0, 0.5)]


def lattice2d():
    for x, y, xr, yr, tol in itertools.product(HALF, HALF, RANGES, RANGES, [0, 0.5, 1.0]):
        yield {"p": [x, y], "b": [[xr[0], yr[0]], [xr[1], yr[1]]], "tol": tol, "tags": ["lattice"]}
    for x, y, xr, yr, xr2, yr2 in itertools.product([-3.0, 0.0, 2.5], [-2.0, 0.5, 3.0], RANGES[:3], RANGES[3:], RANGES[1:4],
                                                    RANGES[:3]):
        yield {"p": [x, y], "b": [[xr[0], yr[0]], [xr[1], yr[1]]], "tol": 0.5, "tags": ["lattice", "pib_bounds_object_reused"],
               "then": {"p": [x, y], "b": [[xr2[0], yr2[0]], [xr2[1], yr2[1]]]}}


def run(ctx):
    ctx.exhaustive("lattice", lattice(), body, "{-3..3 step 1/2}^3 with lower <= upper x 7 tolerances")
    ctx.exhaustive("lattice2d", lattice2d(), body2d, "13^2 points x 6^2 rectangles x 3 tolerances")
    ctx.given("scalar", scalar_cases(), body, quick=12000, thorough=1600000)
    ctx.given("point", point_cases(), body2d, quick=6000, thorough=800000)


def replay(ctx, part, case):
    if part in ("lattice2d", "point") or "p" in case:
        body2d(ctx, case)
    else:
        body(ctx, case)
