"""C19 — port discovery picks only EiBotBoards, in enumeration order, and finds them by name."""
import itertools

from hypothesis import strategies as st

from pbt import sut
from pbt.sut import call_sut
from pbt.fakes import quiet  # noqa: F401  (keeps plotink's logger off stderr)
from pbt.fakes.port import patched

ID = "C19"
RULE = ("Port lists of 0..6 (device, description, hardware id) triples from an OS-styled grammar: macOS/Linux boards "
        "('EiBotBoard[,Name]', 'USB VID:PID=04D8:FD92 [SER=Name] LOCATION=..'), Windows pyserial 3 ('USB Serial "
        "Device (COMn)', 'SER=NAME LOCATION'), pyserial 2.7 ('SNR=Name'), VID:PID-only, name-only, foreign devices "
        "(Bluetooth, FTDI, Arduino with their own SER=) and near misses (product name or VID:PID present but not at "
        "the start, other PID, lower-case id), in any order; names of 3..16 characters including spaces, "
        "underscores, prefixes and case variants of each other. Oracle written from the statement: first board = "
        "first description starting with the product name, else first hardware id starting with the VID:PID, else "
        "None; listing = exactly the matching ports in order (None if none); both layers identical. For each "
        "listed board and each key in {name reported by the layer's own list_named_ebbs, serial tag, device} x "
        "{as is, upper, lower}: the lookup returns a device of the list, and that board's device whenever no earlier "
        "port contains the key anywhere (case-insensitively); arbitrary keys return a listed device or None; legacy "
        "and EBB3 agree whenever no hardware id carries SNR=. Non-trivial: >= 2 ports with an EBB not in first "
        "position. Distinct = (port list).")
ASSUMPTIONS = [
    "descriptor strings are ASCII; names have 3..16 characters without leading/trailing blanks (the documented "
    "nickname range)",
    "'also matches' is read liberally: an earlier port containing the key anywhere releases the check from "
    "demanding the later board (the statement then only requires a listed port)",
]
REQUIRED_CLASSES = ["nontrivial", "no_ports", "no_ebb", "name_match_after_id_match", "id_only_board", "named_board",
                    "unnamed_board", "snr_board", "windows_board", "foreign_device", "near_miss", "several_boards",
                    "lookup_by_name", "lookup_by_tag", "lookup_by_device", "lookup_case_variant",
                    "lookup_earlier_also_matches", "lookup_random_key", "prefix_names", "lookup_none",
                    "object_reused_after_other_scan", "twin_device_nodes"]
QUICK_SHARDS = 4

ebb_serial = sut.load("ebb_serial")
ebb3_serial = sut.load("ebb3_serial")
PRODUCT = "EiBotBoard"
VIDPID = "USB VID:PID=04D8:FD92"


def is_ebb(port):
    return port[1].startswith(PRODUCT) or port[2].startswith(VIDPID)


def first_board(ports):
    for port in ports:
        if port[1].startswith(PRODUCT):
            return port[0]
    for port in ports:
        if port[2].startswith(VIDPID):
            return port[0]
    return None


def contains(port, key):
    """Could this (earlier) port "also match" the key?  Liberal, but tied to what the statement names as lookup
    keys - a reported name, a serial-number tag, a port name: the key occurs anywhere in the hardware id or in the
    device name, or in the nickname position of the description, or as a parenthesised port name "(COMn)".  The
    first 11 characters of a foreign device's description are none of these."""
    low = key.lower()
    device, desc, hwid = (field.lower() for field in port)
    if low in hwid or low in device:
        return True
    # the nickname position of a description ("EiBotBoard,<name>" = everything after the 11-character product
    # prefix; the library applies that offset to every description) and a parenthesised port name
    return low in desc[len(PRODUCT) + 1:] or "(" + low in desc or low + ")" in desc


def body(ctx, case):
    ports = [tuple(p) for p in case["ports"]]
    keys_extra = case.get("keys", [])
    classes = set(case.get("tags", []))
    devices = [p[0] for p in ports]
    boards = [p for p in ports if is_ebb(p)]
    if not ports:
        classes.add("no_ports")
    elif not boards:
        classes.add("no_ebb")
    if len(boards) >= 2:
        classes.add("several_boards")
    named_first = first_board(ports)
    id_idx = [i for i, p in enumerate(ports) if p[2].startswith(VIDPID) and not p[1].startswith(PRODUCT)]
    name_idx = [i for i, p in enumerate(ports) if p[1].startswith(PRODUCT)]
    if id_idx and name_idx and min(id_idx) < min(name_idx):
        classes.add("name_match_after_id_match")
    nontrivial = len(ports) >= 2 and bool(boards) and not is_ebb(ports[0]) or \
        (len(ports) >= 2 and len(boards) >= 2)
    if case.get("earlier") is not None:
        classes.add("object_reused_after_other_scan")
    ctx.record(case, classes, nontrivial=nontrivial)
    what = "with ports %r: " % (ports,)
    stub = lambda: iter(list(ports))        # noqa: E731  comports() returns an iterable
    with patched((ebb_serial, "comports", stub), (ebb3_serial, "comports", stub)):
        # ---- first-board discovery ------------------------------------------------------
        got_legacy = call_sut(ebb_serial.findPort)
        obj = ebb3_serial.EBB3()
        call_sut(obj.find_first)
        got_ebb3 = obj.port_name
        # a one-shot enumerator (pyserial returned generators in some generations): each call of comports() yields
        # a fresh iterator; a function that walks one result twice must still see every port
        if case.get("earlier") is not None:
            # the same EBB3 object scanned another port list earlier: what it found then must not leak
            classes.add("object_reused_after_other_scan")
            reused = ebb3_serial.EBB3()
            if case.get("connected"):
                reused.port = object()          # the object holds an open connection while it scans again
            earlier = [tuple(p) for p in case["earlier"]]
            with patched((ebb3_serial, "comports", lambda: iter(list(earlier)))):
                call_sut(reused.find_first)
            call_sut(reused.find_first)
            if reused.port_name != named_first:
                ctx.fail(what + "EBB3.find_first() on an object that had scanned %r before set port_name = %r, "
                         "expected %r" % (earlier, reused.port_name, named_first), case)
        if got_legacy != named_first:
            ctx.fail(what + "ebb_serial.findPort() = %r, expected %r" % (got_legacy, named_first), case)
        if got_ebb3 != named_first:
            ctx.fail(what + "EBB3.find_first() set port_name = %r, expected %r" % (got_ebb3, named_first), case)
        # ---- listing --------------------------------------------------------------------
        want_list = boards or None
        for name, fn in (("ebb_serial.listEBBports", ebb_serial.listEBBports),
                         ("ebb3_serial.list_ebb_ports", ebb3_serial.list_ebb_ports)):
            got = call_sut(fn)
            got_norm = None if got is None else [tuple(p) for p in got]
            if got_norm != want_list:
                ctx.fail(what + "%s() = %r, expected %r" % (name, got, want_list), case)
        # ---- names reported by the library itself -----------------------------------------
        layers = (("legacy", ebb_serial.list_named_ebbs, ebb_serial.find_named_ebb),
                  ("ebb3", ebb3_serial.list_named_ebbs, ebb3_serial.find_named))
        any_snr = any("snr=" in p[2].lower() for p in ports)
        for layer, lister, finder in layers:
            names = call_sut(lister)
            if not boards:
                if names is not None:
                    ctx.fail(what + "%s list_named_ebbs() = %r with no board present" % (layer, names), case)
                continue
            if not isinstance(names, list) or len(names) != len(boards) or \
                    not all(isinstance(n, str) and n for n in names):
                ctx.fail(what + "%s list_named_ebbs() = %r: expected one non-empty name per listed board (%d)"
                         % (layer, names, len(boards)), case)
            for board, reported in zip(boards, names):
                idx = ports.index(board)
                keys = [("lookup_by_name", reported), ("lookup_by_device", board[0])]
                tag = serial_tag(board[2], layer)
                if tag:
                    keys.append(("lookup_by_tag", tag))
                for cls, key in keys:
                    for variant in dict.fromkeys([key, key.upper(), key.lower(), key.swapcase()]):
                        vclasses = {cls}
                        if variant != key:
                            vclasses.add("lookup_case_variant")
                        got = call_sut(finder, variant)
                        earlier = any(contains(p, variant) for p in ports[:idx])
                        if earlier:
                            vclasses.add("lookup_earlier_also_matches")
                        ctx.record({"ports": case["ports"], "key": variant, "layer": layer}, vclasses, nontrivial)
                        if got not in devices:
                            ctx.fail(what + "%s lookup(%r) = %r, which is not a port of the list"
                                     % (layer, variant, got), case)
                        if not earlier and got != board[0]:
                            ctx.fail(what + "%s lookup(%r) = %r, expected %r (%s of the board at position %d; no "
                                     "earlier port matches)" % (layer, variant, got, board[0], cls[10:], idx), case)
        # ---- arbitrary keys: listed device or None; layers agree ----------------------------
        for key in keys_extra:
            a = call_sut(ebb_serial.find_named_ebb, key)
            b = call_sut(ebb3_serial.find_named, key)
            ctx.record({"ports": case["ports"], "key": key}, {"lookup_random_key" if key is not None else
                                                             "lookup_none"}, nontrivial)
            for layer, got in (("legacy", a), ("ebb3", b)):
                if got is not None and got not in devices:
                    ctx.fail(what + "%s lookup(%r) = %r, which is not a port of the list" % (layer, key, got), case)
            if key is None and (a is not None or b is not None):
                ctx.fail(what + "lookup(None) = %r / %r, expected None" % (a, b), case)
            if not any_snr and a != b:
                ctx.fail(what + "lookup(%r): legacy layer returns %r, EBB3 layer returns %r (no SNR= tag present)"
                         % (key, a, b), case)


def serial_tag(hwid, layer):
    """The serial-number tag a port carries, as the statement's 'serial-number tag' key."""
    for marker in (("SER=",) if layer == "ebb3" else ("SER=", "SNR=")):
        if marker in hwid:
            rest = hwid[hwid.index(marker) + 4:]
            tag = rest.split(" LOCATION")[0] if " LOCATION" in rest else rest
            tag = tag.strip()
            if len(tag) >= 3:
                return tag
    return None


# ------------------------------------------------------------------ generators
NAME_ALPHABET = "abcdefghijklmnopqrstuvwxyzABCDEFGHIJKLMNOPQRSTUVWXYZ0123456789 _-"
BASE_NAMES = ["Axi", "AxiDraw", "axidraw", "AXIDRAW V3", "AxiDraw_North", "Axi Draw", "East", "EastWing", "E-1",
              "ebb", "EBB2", "com", "COM1", "usb", "Bot", "plotter 16 chars", "abc", "ABC", "North_1", "north_10",
              "NextDraw", "next", "dev", "tty"]


@st.composite
def names(draw):
    if draw(st.integers(0, 2)) > 0:
        return draw(st.sampled_from(BASE_NAMES))
    text = draw(st.text(NAME_ALPHABET, min_size=3, max_size=16)).strip()
    while len(text) < 3:
        text += "x"
    return text


@st.composite
def port_entry(draw, slot, family=False):
    """One enumerated port; slot makes device names distinct."""
    kind = draw(st.sampled_from(["mac_named", "mac_named", "mac_unnamed", "linux_named", "win3", "win3", "win27",
                                 "win27", "id_only", "name_only", "foreign", "foreign", "near_miss"]))
    name = draw(st.sampled_from(BASE_NAMES[:6] + ["North_1", "north_10", "North_1"])) if family else draw(names())
    loc = "LOCATION=%d-%d.%d" % (draw(st.integers(1, 20)), draw(st.integers(1, 4)), draw(st.integers(1, 4)))
    com = "COM%d" % (slot + draw(st.sampled_from([1, 3, 10])))
    mac = "/dev/cu.usbmodem%d" % (1411 + slot * 10)
    acm = "/dev/ttyACM%d" % slot
    tags = set()
    if kind == "mac_named":
        port = (mac, "%s,%s" % (PRODUCT, name), "%s SER=%s %s" % (VIDPID, name, loc))
        tags.add("named_board")
    elif kind == "mac_unnamed":
        port = (mac, PRODUCT, "%s %s" % (VIDPID, loc))
        tags.add("unnamed_board")
    elif kind == "linux_named":
        port = (acm, "%s,%s" % (PRODUCT, name), "%s SER=%s %s" % (VIDPID, name, loc))
        tags.add("named_board")
    elif kind == "win3":
        tag = name.replace(" ", "_")
        if draw(st.booleans()):
            tag = tag.upper()
        port = (com, "USB Serial Device (%s)" % com, "%s SER=%s %s" % (VIDPID, tag, loc))
        tags |= {"windows_board", "id_only_board"}
    elif kind == "win27":
        port = (com, "USB Serial Device (%s)" % com, "%s SNR=%s" % (VIDPID, name.replace(" ", "_")))
        tags |= {"snr_board", "id_only_board"}
    elif kind == "id_only":
        port = (draw(st.sampled_from([com, acm])), draw(st.sampled_from(["USB Serial Device (%s)" % com, "n/a",
                                                                         "ttyACM%d" % slot])),
                "%s %s" % (VIDPID, loc))
        tags |= {"id_only_board", "unnamed_board"}
    elif kind == "name_only":
        port = (draw(st.sampled_from([mac, acm, com])), "%s,%s" % (PRODUCT, name), draw(st.sampled_from(
            ["n/a", "", "USB VID:PID=04D8:FD92", "USB VID:PID=04D8:000A %s" % loc])))
        tags.add("named_board")
    elif kind == "foreign":
        which = draw(st.integers(0, 6))
        port = [("/dev/cu.Bluetooth-Incoming-Port", "n/a", "n/a"),
                ("/dev/cu.usbserial-A9007%d" % slot, "FT232R USB UART", "USB VID:PID=0403:6001 SER=A9007%s %s"
                 % (name.replace(" ", ""), loc)),
                (com, "Arduino Uno (%s)" % com, "USB VID:PID=2341:0043 SER=%s %s" % (name.replace(" ", "_"), loc)),
                ("/dev/ttyS%d" % slot, "ttyS%d" % slot, "PNP0501"),
                (com, "%s Serial Adapter (%s)" % (name, com), "USB VID:PID=1A86:7523 %s" % loc),
                (com, "%sX CH340 (%s)" % (name.upper(), com), "USB VID:PID=1A86:7523 %s" % loc),
                (com, "Standard Serial over Bluetooth link (%s)" % com, "BTHENUM\\{00001101}\\%d" % slot)][which]
        tags.add("foreign_device")
    else:
        which = draw(st.integers(0, 4))
        port = [(acm, "My %s,%s" % (PRODUCT, name), "Port USB VID:PID=04D8:FD92 SER=%s %s" % (name, loc)),
                (com, "USB Serial Device (%s)" % com, "USB VID:PID=04D8:FD93 SER=%s %s" % (name, loc)),
                (acm, "eibotboard,%s" % name, "usb vid:pid=04d8:fd92 ser=%s" % name),
                (mac, " %s" % PRODUCT, " %s" % VIDPID),
                (com, "EggBotBoard,%s" % name, "USB VID:PID=04D8:FD9 SER=%s" % name)][which]
        tags.add("near_miss")
    return port, tags, name


@st.composite
def port_lists(draw):
    n = draw(st.sampled_from([0, 1, 1, 2, 2, 2, 3, 3, 4, 5, 6]))
    ports, tags, used = [], set(), []
    family = draw(st.integers(0, 3)) == 0
    for slot in range(n):
        port, ptags, name = draw(port_entry(slot, family))
        ports.append(list(port))
        tags |= ptags
        used.append(name)
    if ports and draw(st.integers(0, 5)) == 0:
        # the twin device node of one of the ports (tty.* <-> cu.*), same descriptors, somewhere else in the list
        k = draw(st.integers(0, len(ports) - 1))
        dev = ports[k][0]
        twin = dev.replace("/dev/cu.", "/dev/tty.") if "/dev/cu." in dev else (
            dev.replace("/dev/tty.", "/dev/cu.") if "/dev/tty." in dev else None)
        if twin and twin != dev:
            ports.insert(draw(st.integers(0, len(ports))), [twin, ports[k][1], ports[k][2]])
            tags.add("twin_device_nodes")
    if len(used) >= 2 and any(a != b and a.lower().startswith(b.lower()) for a in used for b in used):
        tags.add("prefix_names")
    keys = [None]
    pool = [f for p in ports for f in p] + used + ["COM", "EiBotBoard", "04D8", "SER=", "USB", "xyz"]
    for _ in range(draw(st.integers(1, 4))):
        src = draw(st.sampled_from(pool))
        if src and draw(st.booleans()):
            a = draw(st.integers(0, len(src) - 1))
            b = draw(st.integers(a + 1, len(src)))
            src = src[a:b]
        keys.append(draw(st.sampled_from([src, src.lower(), src.upper()])))
    case = {"ports": ports, "keys": keys, "tags": sorted(tags)}
    if draw(st.integers(0, 2)) == 0:
        m = draw(st.integers(0, 3))
        case["earlier"] = [list(draw(port_entry(10 + k))[0]) for k in range(m)]
        case["connected"] = draw(st.booleans())
    return case


def pair_grid():
    """Every ordered pair (and every single) from a fixed catalogue of port shapes."""
    loc = "LOCATION=1-2.3"
    catalogue = [
        (["/dev/cu.usbmodem1411", "EiBotBoard,AxiDraw", VIDPID + " SER=AxiDraw " + loc], {"named_board"}),
        (["/dev/cu.usbmodem1421", "EiBotBoard,Axi", VIDPID + " SER=Axi " + loc], {"named_board"}),
        (["/dev/ttyACM0", "EiBotBoard", VIDPID + " " + loc], {"unnamed_board"}),
        (["COM4", "USB Serial Device (COM4)", VIDPID + " SER=AXIDRAW_V3 " + loc], {"windows_board", "id_only_board"}),
        (["COM14", "USB Serial Device (COM14)", VIDPID + " SNR=North_1"], {"snr_board", "id_only_board"}),
        (["COM1", "USB Serial Device (COM1)", VIDPID + " " + loc], {"id_only_board", "unnamed_board"}),
        (["/dev/ttyACM1", "EiBotBoard,East", "n/a"], {"named_board"}),
        (["/dev/cu.Bluetooth-Incoming-Port", "n/a", "n/a"], {"foreign_device"}),
        (["COM3", "Arduino Uno (COM3)", "USB VID:PID=2341:0043 SER=AxiDraw " + loc], {"foreign_device"}),
        (["/dev/ttyACM2", "My EiBotBoard,Axi", "Port " + VIDPID + " SER=Axi"], {"near_miss"}),
    ]
    keys = [None, "Axi", "axidraw", "COM1", "com", "East", "North_1", "zzz"]
    yield {"ports": [], "keys": keys, "tags": []}
    for k in range(len(catalogue)):
        yield {"ports": [], "keys": [None], "tags": [], "earlier": [catalogue[k][0]], "connected": True}
        yield {"ports": [catalogue[(k + 1) % len(catalogue)][0]], "keys": [None], "tags": [],
               "earlier": [catalogue[k][0]], "connected": True}
    # both device nodes macOS creates for one adapter (tty.* for dial-in, cu.* for call-out), in either order
    loc = "LOCATION=20-2"
    twins = [["/dev/tty.usbmodem1411", "EiBotBoard,Axi", VIDPID + " SER=Axi " + loc],
             ["/dev/cu.usbmodem1411", "EiBotBoard,Axi", VIDPID + " SER=Axi " + loc]]
    for order in (twins, twins[::-1]):
        yield {"ports": order, "keys": [None, "/dev/cu.usbmodem1411", "/dev/tty.usbmodem1411", "/DEV/CU.USBMODEM1411"],
               "tags": ["named_board", "twin_device_nodes"]}
        yield {"ports": [order[0], catalogue[7][0], order[1]], "keys": [None], "tags": ["named_board", "twin_device_nodes"]}
    for k in range(len(catalogue)):
        # a board was found by an earlier scan of the same object; now the list holds only foreign devices / nothing
        yield {"ports": [], "keys": [None], "tags": [], "earlier": [catalogue[k][0]]}
        yield {"ports": [catalogue[7][0]], "keys": [None], "tags": ["foreign_device"], "earlier": [catalogue[k][0]]}
        yield {"ports": [catalogue[k][0]], "keys": [None], "tags": sorted(catalogue[k][1]), "earlier": [catalogue[0][0]]}
    for n in (1, 2, 3):
        for combo in itertools.permutations(range(len(catalogue)), n):
            tags = set()
            for k in combo:
                tags |= catalogue[k][1]
            yield {"ports": [catalogue[k][0] for k in combo], "keys": keys, "tags": sorted(tags)}


def run(ctx):
    ctx.exhaustive("pair_grid", pair_grid(), body, "every ordered selection of <= 3 ports from a 10-shape catalogue")
    ctx.given("generated", port_lists(), body, quick=2500, thorough=250000)
    if ctx.thorough and ctx.shard == 0:
        from pbt.fuzz import driver
        driver.run_stage(ctx, "c19_ports", runs=30000, max_len=4096)


def replay(ctx, part, case):
    body(ctx, case)
