"""C01 — timed-move prediction equals the firmware step-accumulator recurrence."""
from hypothesis import strategies as st

from pbt import sut
from pbt.sut import call_sut
from pbt.oracles import firmware as fw
from pbt.gen_firmware import t3_moves, accumulators, AMBIENT, set_ambient, rates_valid

ID = "C01"
RULE = ("Cases (rate, accel, T, accumulator|clear, ambient mpmath precision) are built constructively "
        "inside the firmware-valid domain (|rate_k| <= 2^31-1 on ticks 1..T, T up to 2^32-1); oracle = "
        "literal tick loop (T <= 4096) / exact integer closed form. Non-trivial: T >= 2 and "
        "(accel != 0 or start accumulator not 0/clear-to-0). Distinct = distinct argument tuples.")
ASSUMPTIONS = [
    "integer inputs only (the statement quantifies over integers); T = 0 is not asserted",
    "for T > 4096 the exact integer closed form stands in for the tick loop (equality of the two "
    "is asserted on every case with T <= 4096)",
]
REQUIRED_CLASSES = ["nontrivial", "odd_accel", "neg_accel", "clear_to_M", "r1_zero", "beyond_2^53",
                    "T>2^20", "ambient_low_precision", "loop_validated", "same_rates_other_duration_or_accumulator"]

QUICK_SHARDS = 4

ebb_calc = sut.load("ebb_calc")
ebb_motion = sut.load("ebb_motion")
OPTION_PROBES = [(ebb_calc.move_dist_lt, ["rate", "accel", "time", "accum"], [1000, 5, 20]),
                 (ebb_motion.moveDistLM, ["rate_in", "accel_in", "time_ticks"], [1000, 5, 20]),
                 (ebb_motion.moveDistLMA, ["rate_in", "accel_in", "time_ticks", "accum_in"], [1000, 5, 20, 7])]



def body(ctx, case):
    """The main move, preceded (when case["before"] is set) by calls for the same rates with another duration and/or
    start accumulator: every call is judged on its own, so nothing remembered from one call may leak into the next."""
    if case.get("t0"):
        # a zero-duration query for these rates first (T = 0 is outside the quantifier: its result is not judged)
        ctx.classes["zero_duration_query_first"] += 1
        for fn, args in ((ebb_calc.move_dist_lt, (case["rate"], case["accel"], 0, case["accum"])),
                         (ebb_motion.moveDistLM, (case["rate"], case["accel"], 0))):
            try:
                fn(*args)
            except Exception:  # pylint: disable=broad-except
                pass
    for variation in case.get("before", []):
        ctx.classes["same_rates_other_duration_or_accumulator"] += 1
        one(ctx, dict(case, **variation), case)
    one(ctx, case, case)


def one(ctx, case, whole):
    rate, accel, T, accum, amb = (case["rate"], case["accel"], case["T"], case["accum"],
                                  case.get("ambient"))
    if not rates_valid(T, rate, accel, 0):
        raise sut.HarnessError("generator produced an out-of-domain LT move: %r" % (case,))
    exp_pos, exp_acc, looped = fw.lt_expected(rate, accel, T, accum)
    acc0 = fw.lt_clear(rate, accel) if accum == "clear" else accum
    total = fw.lt_total(rate, accel, T, acc0)
    classes = set()
    if accel % 2:
        classes.add("odd_accel")
    if accel < 0:
        classes.add("neg_accel")
    if accum == "clear" and acc0 == fw.M:
        classes.add("clear_to_M")
    if fw.lt_rate(rate, accel, 1) == 0:
        classes.add("r1_zero")
    if abs(total) > 1 << 53:
        classes.add("beyond_2^53")
    if T > 1 << 20:
        classes.add("T>2^20")
    if amb is not None and ((amb[0] == "dps" and amb[1] < 30) or (amb[0] == "prec" and amb[1] < 100)):
        classes.add("ambient_low_precision")
    if looped:
        classes.add("loop_validated")
    ctx.record((rate, accel, T, accum), classes,
               nontrivial=T >= 2 and (accel != 0 or acc0 != 0))

    import mpmath
    saved = mpmath.mp.prec
    try:
        set_ambient(amb)
        got = call_sut(ebb_calc.move_dist_lt, rate, accel, T, accum)
        if tuple(got) != (exp_pos, exp_acc):
            ctx.fail("move_dist_lt(%d, %d, %d, %r) = %r, firmware recurrence gives %r"
                     % (rate, accel, T, accum, got, (exp_pos, exp_acc)), whole)
        if not all(isinstance(v, int) and not isinstance(v, bool) for v in got):
            ctx.fail("move_dist_lt returned non-integers %r" % (got,), whole)
        set_ambient(amb)
        got_a = call_sut(ebb_motion.moveDistLMA, rate, accel, T, accum)
        if tuple(got_a) != (exp_pos, exp_acc):
            ctx.fail("moveDistLMA(%d, %d, %d, %r) = %r, expected %r"
                     % (rate, accel, T, accum, got_a, (exp_pos, exp_acc)), whole)
        set_ambient(amb)
        got_b = call_sut(ebb_motion.moveDistLM, rate, accel, T)
        exp_b = fw.lt_expected(rate, accel, T, 0)[0]
        if got_b != exp_b:
            ctx.fail("moveDistLM(%d, %d, %d) = %r, expected %r (accumulator 0)"
                     % (rate, accel, T, got_b, exp_b), whole)
    finally:
        mpmath.mp.prec = saved


@st.composite
def variations(draw, T):
    """1..3 earlier calls with the same rates: any duration T' <= T is valid when T is; any accumulator is."""
    out = []
    for _ in range(draw(st.integers(1, 3))):
        var = {}
        how = draw(st.sampled_from(["T", "T", "accum", "both"]))
        if how in ("T", "both"):
            var["T"] = draw(st.one_of(st.integers(1, T), st.integers(max(1, T - 3), T), st.integers(1, min(T, 4))))
        if how in ("accum", "both"):
            var["accum"] = draw(accumulators())
        out.append(var)
    return out


@st.composite
def cases(draw):
    mv = draw(t3_moves(with_jerk=False))
    case = {"rate": mv["rate"], "accel": mv["accel"], "T": mv["T"],
            "accum": draw(accumulators()), "ambient": draw(AMBIENT)}
    if draw(st.integers(0, 3)) == 0:
        case["before"] = draw(variations(case["T"]))
    if draw(st.integers(0, 5)) == 0:
        case["t0"] = True
    return case


def small_grid():
    """Exhaustive small domain: every (rate0, accel, T, accum) on a dense small lattice, where
    sign/parity/zero coincidences are all present."""
    for accel in range(-5, 6):
        for r1 in (-3, -2, -1, 0, 1, 2, 3, fw.M, -fw.M, fw.M - 7, -fw.M + 7):
            for T in (1, 2, 3, 4, 7):
                rate = r1 - accel + fw.tz(accel, 2)
                if not rates_valid(T, rate, accel, 0):
                    continue
                for accum in ("clear", 0, 1, fw.M, fw.M - 1):
                    yield {"rate": rate, "accel": accel, "T": T, "accum": accum, "ambient": None}


def run(ctx):
    ctx.exhaustive("small-grid", small_grid(), body,
                   "accel in -5..5 x first-tick rate in {0,+-1..3,+-M,..} x T in {1,2,3,4,7} x 5 accumulators")
    ctx.given("generated", cases(), body, quick=12000, thorough=1600000)


def replay(ctx, part, case):
    body(ctx, case)
