"""C02 — jerk (T3) move prediction equals the third-order firmware recurrence."""
from hypothesis import strategies as st

from pbt import sut
from pbt.sut import call_sut
from pbt.oracles import firmware as fw
from pbt.gen_firmware import t3_moves, accumulators, AMBIENT, set_ambient, rates_valid

ID = "C02"
RULE = ("Cases (T, rate, accel, jerk, accumulator|clear, ambient mpmath precision) are built constructively "
        "in the firmware-valid domain (per-tick |rate| <= 2^31-1, |accel + k*jerk| <= 2^31-1, T up to 2^32-1) "
        "with explicit construction of r_1 = 0, r_1 = r_2 = 0 and of the parabola vertex position; oracle = "
        "literal third-order tick loop (T <= 4096) / exact integer closed form, for position, accumulator "
        "and end rate; jerk = 0 cases are additionally compared with move_dist_lt. Non-trivial: jerk != 0 "
        "and T >= 2. Distinct = distinct argument tuples.")
ASSUMPTIONS = [
    "integer inputs in the firmware-valid domain only; T = 0 not asserted",
    "closed form stands in for the tick loop above T = 4096 (asserted equal to it below)",
]
REQUIRED_CLASSES = ["nontrivial", "jerk_pos", "jerk_neg", "jerk_mod6_nonzero", "odd_accel", "r1_zero",
                    "r1_r2_zero", "clear_to_M", "T>2^20", "jerk_zero", "loop_validated",
                    "ambient_low_precision", "interior_vertex", "same_rates_other_duration_or_accumulator"]
QUICK_SHARDS = 4

ebb_calc = sut.load("ebb_calc")
OPTION_PROBES = [(ebb_calc.move_dist_t3, ["time", "rate", "accel", "jerk", "accum"], [20, 1000, 5, 1]),
                 (ebb_calc.rate_t3, ["time", "rate", "accel", "jerk"], [20, 1000, 5, 1])]



def body(ctx, case):
    """The main move, preceded (when case["before"] is set) by calls for the same rates with another duration and/or
    start accumulator: every call is judged on its own, so nothing remembered from one call may leak into the next."""
    if case.get("t0"):
        # a planner samples a move at its very start: a zero-duration query for these rates (T = 0 is outside the
        # quantifier, so whatever it returns - or raises - is not judged) must not change what the move itself yields
        ctx.classes["zero_duration_query_first"] += 1
        for fn, args in ((ebb_calc.rate_t3, (0, case["rate"], case["accel"], case["jerk"])),
                         (ebb_calc.move_dist_t3, (0, case["rate"], case["accel"], case["jerk"], case["accum"]))):
            try:
                fn(*args)
            except Exception:  # pylint: disable=broad-except
                pass
    for variation in case.get("before", []):
        ctx.classes["same_rates_other_duration_or_accumulator"] += 1
        one(ctx, dict(case, **variation), case)
    one(ctx, case, case)


def one(ctx, case, whole):
    T, rate, accel, jerk, accum, amb = (case["T"], case["rate"], case["accel"], case["jerk"],
                                        case["accum"], case.get("ambient"))
    if not rates_valid(T, rate, accel, jerk):
        raise sut.HarnessError("generator produced an out-of-domain T3 move: %r" % (case,))
    exp_pos, exp_acc, exp_rate, peak, looped = fw.t3_expected(rate, accel, jerk, T, accum)
    acc0 = fw.t3_clear(rate, accel, jerk) if accum == "clear" else accum
    r1 = fw.t3_rate(rate, accel, jerk, 1)
    r2 = fw.t3_rate(rate, accel, jerk, 2)
    classes = set()
    if jerk > 0:
        classes.add("jerk_pos")
    if jerk < 0:
        classes.add("jerk_neg")
    if jerk == 0:
        classes.add("jerk_zero")
    if jerk % 6:
        classes.add("jerk_mod6_nonzero")
    if accel % 2:
        classes.add("odd_accel")
    if r1 == 0:
        classes.add("r1_zero")
        if r2 == 0:
            classes.add("r1_r2_zero")
    if accum == "clear" and acc0 == fw.M:
        classes.add("clear_to_M")
    if T > 1 << 20:
        classes.add("T>2^20")
    if looped:
        classes.add("loop_validated")
    if amb is not None and ((amb[0] == "dps" and amb[1] < 30) or (amb[0] == "prec" and amb[1] < 100)):
        classes.add("ambient_low_precision")
    if peak > max(abs(r1), abs(exp_rate)):
        classes.add("interior_vertex")
    ctx.record((T, rate, accel, jerk, accum), classes, nontrivial=jerk != 0 and T >= 2)

    import mpmath
    saved = mpmath.mp.prec
    try:
        set_ambient(amb)
        got = call_sut(ebb_calc.move_dist_t3, T, rate, accel, jerk, accum)
        if tuple(got) != (exp_pos, exp_acc):
            ctx.fail("move_dist_t3(%d, %d, %d, %d, %r) = %r, firmware recurrence gives %r"
                     % (T, rate, accel, jerk, accum, got, (exp_pos, exp_acc)), whole)
        if not all(isinstance(v, int) and not isinstance(v, bool) for v in got):
            ctx.fail("move_dist_t3 returned non-integers %r" % (got,), whole)
        set_ambient(amb)
        got_r = call_sut(ebb_calc.rate_t3, T, rate, accel, jerk)
        if got_r != exp_rate:
            ctx.fail("rate_t3(%d, %d, %d, %d) = %r, recurrence rate at tick T is %r"
                     % (T, rate, accel, jerk, got_r, exp_rate), whole)
        if jerk == 0:
            set_ambient(amb)
            got_lt = call_sut(ebb_calc.move_dist_lt, rate, accel, T, accum)
            if tuple(got_lt) != tuple(got):
                ctx.fail("zero jerk: move_dist_t3 %r != move_dist_lt %r for (%d, %d, %d, %r)"
                         % (got, got_lt, rate, accel, T, accum), whole)
    finally:
        mpmath.mp.prec = saved


@st.composite
def variations(draw, T):
    """1..3 earlier calls with the same rates: any duration T' <= T is valid when T is; any accumulator is."""
    out = []
    for _ in range(draw(st.integers(1, 3))):
        var = {}
        how = draw(st.sampled_from(["T", "T", "accum", "both"]))
        if how in ("T", "both"):
            var["T"] = draw(st.one_of(st.integers(1, T), st.integers(max(1, T - 3), T), st.integers(1, min(T, 4))))
        if how in ("accum", "both"):
            var["accum"] = draw(accumulators())
        out.append(var)
    return out


@st.composite
def cases(draw):
    zero_jerk = draw(st.integers(0, 9)) == 0
    mv = draw(t3_moves(with_jerk=not zero_jerk))
    case = {"T": mv["T"], "rate": mv["rate"], "accel": mv["accel"], "jerk": mv["jerk"],
            "accum": draw(accumulators()), "ambient": draw(AMBIENT)}
    if draw(st.integers(0, 3)) == 0:
        case["before"] = draw(variations(case["T"]))
    if draw(st.integers(0, 5)) == 0:
        case["t0"] = True
    return case


def small_grid():
    for jerk in range(-7, 8):
        for accel in (-3, -2, -1, 0, 1, 2, 3, -jerk, -2 * jerk):
            for r1 in (-2, -1, 0, 1, 2):
                for T in (1, 2, 3, 4, 6):
                    rate = r1 - accel + fw.tz(accel, 2) - fw.tz(jerk, 6)
                    for accum in ("clear", 0, fw.M):
                        yield {"T": T, "rate": rate, "accel": accel, "jerk": jerk, "accum": accum,
                               "ambient": None}


def run(ctx):
    ctx.exhaustive("small-grid", small_grid(), body,
                   "jerk in -7..7 x accel in {-3..3,-jerk,-2jerk} x first-tick rate in -2..2 x T in {1,2,3,4,6} x 3 accumulators")
    ctx.given("generated", cases(), body, quick=12000, thorough=1600000)


def replay(ctx, part, case):
    body(ctx, case)
