"""C15 — firmware version gating uses numeric version order and blocks unsupported boards."""
import itertools

import serial
from hypothesis import strategies as st

from pbt import sut
from pbt.sut import call_sut
from pbt.fakes import quiet  # noqa: F401
from pbt.fakes.port import FakePort, SerialFactory, patched, SERIAL_FAMILY
from pbt.fakes.board import Board
from pbt import ebb3_methods as em

ID = "C15"
RULE = ("(1) Version order: firmware triples a.b.c with multi-digit components against thresholds, through "
        "ebb_serial.min_version (a fake port whose board reports the version) and through EBB3.parse_version + "
        "EBB3.min_version; both must equal integer-tuple comparison; exhaustive over {0,1,2,3,5,6,9,10,11,25,100}^3 "
        "x 14 thresholds plus generated components up to 10^4. (2) EBB3.connect() handshake scripts on a fake "
        "serial.Serial / comports: device kind (EBB answering at once, EBB answering only the second probe, EBB "
        "after a garbage line, non-EBB chatter, silent) x firmware version x port open ok / raising x a "
        "SerialException-family fault at any probe write or read x port lookup (first board, by name, not found); "
        "True with no error <=> EBB with version >= 3.0.2 and nothing raised; otherwise False with an error "
        "recorded, nothing written but version probes ('v' / 'V'), and a following request writes nothing and returns "
        "its failure value. (3) Legacy gates (servo_timeout 2.6.0, queryVoltage 2.2.3, query_nickname / "
        "write_nickname / reboot 2.5.5) on a legacy board stub: the gated command is written <=> the reported "
        "version >= threshold, and never to a silent or unidentifiable device - also when another board with a "
        "different version was attached under the same device name earlier in the process. Non-trivial: a version with a "
        "component >= 10 on either side of the comparison. Distinct = distinct scripts / version pairs.")
ASSUMPTIONS = [
    "device replies are ASCII text lines; a device that says 'EBB' without a 'Firmware Version a.b.c' field is "
    "outside both clauses of the statement and is not generated",
    "I/O exceptions after a supported board has been verified (the CU,10,1 step and the nickname query) fall "
    "under neither clause and are not injected; only the SerialException family is injected during the probe "
    "(pyserial wraps OS errors in it)",
    "a retried connect() after a refusal is only held to the lenient reading: it must not return True with no "
    "error for an unsupported device, and the device still receives only version probes (on the unchanged tree a "
    "retry after an old-firmware refusal returns True while the first error stays recorded and blocks every request)",
]
REQUIRED_CLASSES = ["nontrivial", "order_equal", "order_older", "order_newer", "order_string_order_differs",
                    "connect_ok", "connect_old_firmware", "connect_non_ebb", "connect_silent", "connect_late",
                    "connect_cannot_open", "connect_probe_fault", "connect_no_port", "connect_by_name",
                    "gate_open", "gate_closed", "gate_unidentified", "boundary_version", "connect_retry",
                    "gate_after_other_board", "order_after_other_board", "connect_after_good_session", "connect_flush_fault"]
QUICK_SHARDS = 4

ebb_serial = sut.load("ebb_serial")
ebb_motion = sut.load("ebb_motion")
ebb3_serial = sut.load("ebb3_serial")
ebb3_motion = sut.load("ebb3_motion")
MIN_SUPPORTED = (3, 0, 2)


def vstr(triple):
    return ".".join(str(c) for c in triple)


_DEVICE_COUNTER = [0]


def fresh_device():
    """A device name no earlier case of this process has used: whatever plotink may remember per device name
    cannot leak from one generated case into the next, so every failing case reproduces on its own."""
    _DEVICE_COUNTER[0] += 1
    return "/dev/ttyACM%d" % (1000 + _DEVICE_COUNTER[0])


def legacy_port(board, device):
    port = FakePort(board)
    port.port = port.name = port.portstr = device
    return port


# ------------------------------------------------------------------ (1) version order
def body_order(ctx, case):
    version, threshold = tuple(case["v"]), tuple(case["t"])
    want = version >= threshold
    classes = {"order_equal" if version == threshold else ("order_newer" if want else "order_older")}
    if (vstr(version) >= vstr(threshold)) != want:
        classes.add("order_string_order_differs")
    nontrivial = any(c >= 10 for c in version + threshold)
    if case.get("prior"):
        classes.add("order_after_other_board")
    ctx.record(case, classes, nontrivial)
    device = fresh_device()
    if case.get("prior"):
        # another board was attached under the same device name earlier in this process
        call_sut(ebb_serial.min_version, legacy_port(Board("legacy", version=vstr(case["prior"])), device),
                 vstr(threshold))
    board = Board("legacy", version=vstr(version))
    if case.get("banner"):
        board.banner_prefix = case["banner"]
    port = legacy_port(board, device)
    got = call_sut(ebb_serial.min_version, port, vstr(threshold))
    if got is not want:
        ctx.fail("ebb_serial.min_version(<board reporting %s>, %r) = %r, expected %r (numeric order)"
                 % (vstr(version), vstr(threshold), got, want), case)
    obj = ebb3_serial.EBB3()
    call_sut(obj.parse_version, "%s Firmware Version %s" % (case.get("banner") or "EBBv13_and_above EB", vstr(version)))
    got3 = call_sut(obj.min_version, vstr(threshold))
    if got3 is not want:
        ctx.fail("EBB3.min_version(%r) after parse_version('... Firmware Version %s') = %r, expected %r"
                 % (vstr(threshold), vstr(version), got3, want), case)
    if obj.version != vstr(version):
        ctx.fail("EBB3.parse_version kept version %r, expected %r" % (obj.version, vstr(version)), case)


# ------------------------------------------------------------------ (2) connect handshake
PROBE_LIMIT = 8          # the statement does not fix how often the version is asked; this only stops a runaway loop


def is_probe(data):
    """The version query in any spelling the firmware accepts (command names are case-insensitive)."""
    return bytes(data).strip().upper() == b"V"


class ScriptedDevice:
    """kind: prompt | late | after_garbage | non_ebb | silent; behind it a conforming Board."""

    def __init__(self, kind, version, chatter="Arduino ready", banner=None):
        self.kind = kind
        self.board = Board("ebb3", version=version)
        if banner:
            self.board.banner_prefix = banner
        self.chatter = chatter
        self.probes = 0
        self.received = []

    def respond(self, data):
        self.received.append(bytes(data))
        text = data.decode("ascii", "replace").strip().lower()
        if self.kind == "silent":
            return []
        if self.kind == "non_ebb":
            return [(self.chatter + "\r\n").encode("ascii")]
        if text == "v":
            self.probes += 1
            if self.probes == 1 and self.kind == "late":
                return []
            if self.probes == 1 and self.kind == "after_garbage":
                return [(self.chatter + "\r\n").encode("ascii")]
        return self.board.respond(data)


FOREIGN = ("/dev/cu.Bluetooth-Incoming-Port", "n/a", "n/a")


def body_connect(ctx, case):
    kind, version = case["kind"], tuple(case["v"])
    open_fault, probe_fault = case.get("open_fault"), case.get("probe_fault")
    lookup = case.get("lookup", "first")
    classes = set()
    is_ebb = kind in ("prompt", "late", "after_garbage")
    supported = version >= MIN_SUPPORTED
    device = ScriptedDevice(kind, vstr(version), case.get("chatter", "Arduino ready"), case.get("banner"))
    port = FakePort(device)
    name = em.PORT_NAME
    comports = [FOREIGN, (name, "EiBotBoard,East", "USB VID:PID=04D8:FD92 SER=East LOCATION=1-1")]
    given = None
    found = True
    if lookup == "by_name":
        given = "east"
        classes.add("connect_by_name")
    elif lookup == "by_wrong_name":
        given = "West"
        found = False
    elif lookup == "none_present":
        comports = [FOREIGN]
        found = False
    factory = SerialFactory({name: port}, fail={name: open_fault} if open_fault else {})
    faults = {}
    n_probe_ops = 2 if kind == "prompt" else 4
    if probe_fault is not None:
        op_index, exc_name = probe_fault
        if op_index < n_probe_ops:
            faults[op_index] = ("raise", exc_name)
    obj = ebb3_motion.EBBMotionWrap()
    if case.get("prior_session"):
        # the same object had a complete good session (connect to a supported board, a request, disconnect) before
        good = FakePort(Board("ebb3", version="3.0.2", nickname="West"))
        good_list = [(name, "EiBotBoard,West", "USB VID:PID=04D8:FD92 SER=West LOCATION=1-1")]
        with patched((ebb3_serial, "comports", lambda: list(good_list)),
                     (serial, "Serial", SerialFactory({name: good}))):
            ok = obj.connect()
        if ok is not True or obj.err is not None:
            raise sut.HarnessError("prior good session did not connect: %r %r" % (ok, obj.err))
        obj.query_statusbyte()
        obj.disconnect()
        if obj.err is not None or obj.port is not None:
            raise sut.HarnessError("prior good session did not end cleanly: %r" % (obj.err,))
    port.begin_call(faults)
    if case.get("reset_fault"):
        port.reset_raises = case["reset_fault"]         # the port opens but flushing its input buffer raises
    with patched((ebb3_serial, "comports", lambda: list(comports)), (serial, "Serial", factory)):
        try:
            got = obj.connect(given) if given is not None else obj.connect()
        except Exception as exc:  # pylint: disable=broad-except
            ctx.record(case, classes, any(c >= 10 for c in version))
            ctx.fail("connect() raised %s: %s for %r" % (type(exc).__name__, exc, case), case)
    reset_fault = bool(case.get("reset_fault")) and found and not open_fault
    expect_ok = found and not open_fault and not faults and not reset_fault and is_ebb and supported
    if not found:
        classes.add("connect_no_port")
    elif open_fault:
        classes.add("connect_cannot_open")
    elif faults or reset_fault:
        classes.add("connect_probe_fault")
        if reset_fault:
            classes.add("connect_flush_fault")
    elif kind == "silent":
        classes.add("connect_silent")
    elif kind == "non_ebb":
        classes.add("connect_non_ebb")
    elif not supported:
        classes.add("connect_old_firmware")
    else:
        classes.add("connect_ok")
    if kind in ("late", "after_garbage") and found and not open_fault and not faults:
        classes.add("connect_late")
    if version in ((3, 0, 1), (3, 0, 2), (3, 0, 3), (2, 10, 0), (3, 0, 10), (2, 99, 99), (10, 0, 0)):
        classes.add("boundary_version")
    if case.get("retries") and not expect_ok:
        classes.add("connect_retry")
    if case.get("prior_session"):
        classes.add("connect_after_good_session")
    ctx.record(case, classes, nontrivial=any(c >= 10 for c in version))
    what = "connect(%s) to a %s device reporting %s (open fault %r, probe fault %r, lookup %s)" % (
        "" if given is None else repr(given), kind, vstr(version), open_fault, probe_fault, lookup)
    if expect_ok:
        if got is not True or obj.err is not None:
            ctx.fail("%s returned %r with err=%r; expected True with no error" % (what, got, obj.err), case)
        if obj.port is not port:
            ctx.fail("%s returned True but the object does not hold the opened port" % what, case)
        return
    if got is not False:
        ctx.fail("%s returned %r; expected False" % (what, got), case)
    if not obj.err or not isinstance(obj.err, str):
        ctx.fail("%s returned False without recording an error (err=%r)" % (what, obj.err), case)
    bad = [w for w in port.writes if not is_probe(w)]
    if bad or len(port.writes) > PROBE_LIMIT:
        ctx.fail("%s: the unsupported device received %r; nothing beyond the version probe is allowed"
                 % (what, port.writes), case)
    if not found and factory.opened:
        ctx.fail("%s: no matching port, yet %r was opened" % (what, factory.opened), case)
    # the caller retries against the same refused device: still never "True with no error", still only probes
    retries = case.get("retries", 0)
    for attempt in range(retries):
        port.begin_call({})
        with patched((ebb3_serial, "comports", lambda: list(comports)), (serial, "Serial", factory)):
            try:
                again = obj.connect(given) if given is not None else obj.connect()
            except Exception as exc:  # pylint: disable=broad-except
                ctx.fail("%s; retry %d raised %s: %s" % (what, attempt + 1, type(exc).__name__, exc), case)
        if again is True and obj.err is None and not (is_ebb and supported):
            ctx.fail("%s was refused, but retry %d returned True with no error recorded" % (what, attempt + 1), case)
        bad = [w for w in port.writes if not is_probe(w)]
        if not (is_ebb and supported) and (bad or len(port.writes) > PROBE_LIMIT * (attempt + 2)):
            ctx.fail("%s; after retry %d the unsupported device had received %r" % (what, attempt + 1, port.writes),
                     case)
    if retries:
        ctx.count("connect_retries", retries)
    # a following request must transmit nothing and return its failure value
    method = case.get("then", "query_statusbyte")
    _strategy, sample, fail_value, _kind = em.METHODS[method]
    before = len(port.writes)
    port.begin_call({})
    try:
        ret = getattr(obj, method)(*sample)
    except Exception as exc:  # pylint: disable=broad-except
        ctx.fail("%s; then %s%r raised %s: %s" % (what, method, sample, type(exc).__name__, exc), case)
    if len(port.writes) != before:
        ctx.fail("%s; then %s%r transmitted %r to the refused device" % (what, method, sample,
                                                                         port.writes[before:]), case)
    if not em.same_value(ret, fail_value):
        ctx.fail("%s; then %s%r returned %r, expected its failure value %r" % (what, method, sample, ret,
                                                                               fail_value), case)


# ------------------------------------------------------------------ (3) legacy feature gates
GATES = {
    "servo_timeout": ((2, 6, 0), lambda p: ebb_motion.servo_timeout(p, 5000, 1, False), b"SR,"),
    "servo_timeout_nostate": ((2, 6, 0), lambda p: ebb_motion.servo_timeout(p, 60000, None, False), b"SR,"),
    "queryVoltage": ((2, 2, 3), lambda p: ebb_motion.queryVoltage(p, False), b"QC"),
    "query_nickname": ((2, 5, 5), lambda p: ebb_serial.query_nickname(p, False), b"QT"),
    "write_nickname": ((2, 5, 5), lambda p: ebb_serial.write_nickname(p, "North"), b"ST,"),
    "reboot": ((2, 5, 5), lambda p: ebb_serial.reboot(p), b"RB"),
}


class Mute:
    def __init__(self, line=None):
        self.line = line

    def respond(self, _data):
        return [] if self.line is None else [(self.line + "\r\n").encode("ascii")]


def body_gate(ctx, case):
    gate, version = case["gate"], case["v"]
    threshold, call, marker = GATES[gate]
    if version in ("silent", "garbage"):
        board = Mute(None if version == "silent" else "Arduino ready")
        want = False
        classes = {"gate_unidentified"}
        nontrivial = False
        shown = version
    else:
        version = tuple(version)
        board = Board("legacy", version=vstr(version), nickname="East")
        if case.get("banner"):
            board.banner_prefix = case["banner"]
        want = version >= threshold
        classes = {"gate_open" if want else "gate_closed"}
        if abs(sum(a - b for a, b in zip(version, threshold))) <= 1 and version[:2] == threshold[:2]:
            classes.add("boundary_version")
        nontrivial = any(c >= 10 for c in version)
        shown = vstr(version)
    if case.get("prior"):
        classes.add("gate_after_other_board")
    device = fresh_device()
    ctx.record(case, classes, nontrivial)
    if case.get("prior"):
        # the same gated call was made earlier against another board attached under the same device name
        try:
            call(legacy_port(Board("legacy", version=vstr(case["prior"]), nickname="West"), device))
        except Exception as exc:  # pylint: disable=broad-except
            ctx.fail("%s on a board reporting %s raised %s: %s" % (gate, vstr(case["prior"]), type(exc).__name__,
                                                                   exc), case)
        shown += " (attached after a board reporting %s)" % vstr(case["prior"])
    port = legacy_port(board, device)
    try:
        call(port)
    except Exception as exc:  # pylint: disable=broad-except
        ctx.fail("%s on a board reporting %s raised %s: %s" % (gate, shown, type(exc).__name__, exc), case)
    sent = any(w.upper().startswith(marker) for w in port.writes)
    if sent is not want:
        ctx.fail("%s on a board reporting %s (needs %s): writes were %r; the gated command %s transmitted"
                 % (gate, shown, vstr(threshold), port.writes,
                    "must not be" if not want else "must be"), case)
    if not want:
        other = [w for w in port.writes if w.strip().upper() != b"V"]
        if other:
            ctx.fail("%s on a board reporting %s (needs %s) transmitted %r beyond the version probe"
                     % (gate, shown, vstr(threshold), other), case)


# ------------------------------------------------------------------ generators
COMPONENTS = [0, 1, 2, 3, 5, 6, 9, 10, 11, 25, 100]
THRESHOLDS = [(3, 0, 2), (2, 6, 0), (2, 5, 5), (2, 2, 3), (2, 10, 0), (2, 9, 9), (3, 0, 10), (3, 0, 1), (10, 0, 0),
              (1, 9, 9), (3, 1, 0), (2, 5, 10), (0, 0, 0), (25, 11, 100)]
COMP = st.one_of(st.sampled_from(COMPONENTS), st.integers(0, 30), st.integers(0, 10000))
TRIPLE = st.tuples(COMP, COMP, COMP)


@st.composite
def near(draw, base):
    """A version within one step of `base` in one component, or with a carried component."""
    b = list(draw(base))
    how = draw(st.integers(0, 5))
    i = draw(st.integers(0, 2))
    if how == 0:
        b[i] += 1
    elif how == 1 and b[i] > 0:
        b[i] -= 1
    elif how == 2:
        b[i] = b[i] * 10 + draw(st.integers(0, 9))
    elif how == 3 and i > 0 and b[i - 1] > 0:
        b[i - 1] -= 1
        b[i] = draw(st.sampled_from([9, 10, 99, 100]))
    return tuple(b)


@st.composite
def order_cases(draw):
    t = draw(st.one_of(st.sampled_from(THRESHOLDS), TRIPLE))
    v = draw(st.one_of(TRIPLE, near(st.just(t)), st.just(t)))
    case = {"v": list(v), "t": list(t)}
    if draw(st.integers(0, 2)) == 0:
        case["banner"] = draw(st.sampled_from(BANNERS))
    if draw(st.integers(0, 3)) == 0:
        case["prior"] = list(draw(st.one_of(TRIPLE, near(st.just(t)))))
    return case


def order_grid():
    for v in itertools.product(COMPONENTS, repeat=3):
        for t in THRESHOLDS:
            yield {"v": list(v), "t": list(t)}


KINDS = ["prompt", "late", "after_garbage", "non_ebb", "silent"]
CONNECT_VERSIONS = [(3, 0, 2), (3, 0, 1), (3, 0, 3), (2, 8, 1), (2, 10, 0), (3, 0, 10), (3, 1, 0), (3, 10, 0),
                    (10, 0, 0), (2, 99, 99), (4, 0, 0), (3, 0, 0), (0, 0, 0), (2, 5, 5)]
CHATTER = ["Arduino ready", "ok", "Marlin 2.0", "echo: v", "!8 Err: Unknown command 'v'", "GRBL 1.1", "E B B",
           "Pebble Dock Firmware Version 4.1.0", "webbing controller Firmware Version 3.0.2", "ebb",
           "Firmware Version 3.0.2", "eBB-like Firmware Version 9.9.9"]
BANNERS = ["EBBv13_and_above EB", "EBBv13_and_above EB", "EBBv1.3 EB", "EBBv3.1 EB", "EBBv2.6 EB", "EBB v4.0.0 hardware, EB",
           "EBB 10.0 EB"]


@st.composite
def connect_cases(draw):
    kind = draw(st.sampled_from(KINDS + ["prompt", "prompt", "late"]))
    version = draw(st.one_of(st.sampled_from(CONNECT_VERSIONS), near(st.just((3, 0, 2))), TRIPLE))
    case = {"kind": kind, "v": list(version), "chatter": draw(st.sampled_from(CHATTER)),
            "lookup": draw(st.sampled_from(["first", "first", "first", "by_name", "by_wrong_name", "none_present"])),
            "then": draw(st.sampled_from(sorted(em.METHODS))), "retries": draw(st.sampled_from([0, 0, 1, 2])),
            "prior_session": draw(st.integers(0, 3)) == 0, "banner": draw(st.sampled_from(BANNERS))}
    fault = draw(st.integers(0, 5))
    if fault == 0:
        case["open_fault"] = draw(st.sampled_from(SERIAL_FAMILY))
    elif fault == 1:
        case["probe_fault"] = [draw(st.integers(0, 3)), draw(st.sampled_from(SERIAL_FAMILY))]
    elif fault == 2:
        case["reset_fault"] = draw(st.sampled_from(SERIAL_FAMILY))
    return case


def connect_grid():
    for kind, version in itertools.product(KINDS, CONNECT_VERSIONS):
        yield {"kind": kind, "v": list(version), "lookup": "first", "then": "query_statusbyte"}
        yield {"kind": kind, "v": list(version), "lookup": "first", "then": "command", "retries": 1}
        yield {"kind": kind, "v": list(version), "lookup": "first", "then": "query", "prior_session": True}
        for banner in BANNERS[2:]:
            yield {"kind": kind, "v": list(version), "lookup": "first", "then": "query", "banner": banner}
        for chatter in CHATTER[7:]:
            yield {"kind": kind, "v": list(version), "lookup": "first", "then": "command", "chatter": chatter}
        yield {"kind": kind, "v": list(version), "lookup": "first", "then": "query", "retries": 2}
        for exc in SERIAL_FAMILY:
            yield {"kind": kind, "v": list(version), "lookup": "first", "open_fault": exc, "then": "command"}
            for op in range(4):
                yield {"kind": kind, "v": list(version), "lookup": "first", "probe_fault": [op, exc],
                       "then": "var_read_int32"}
            yield {"kind": kind, "v": list(version), "lookup": "first", "reset_fault": exc, "then": "command",
                   "retries": 1}
        for lookup in ("by_name", "by_wrong_name", "none_present"):
            yield {"kind": kind, "v": list(version), "lookup": lookup, "then": "query"}
    for method in sorted(em.METHODS):
        yield {"kind": "prompt", "v": [2, 10, 0], "lookup": "first", "then": method}
        yield {"kind": "non_ebb", "v": [3, 0, 2], "lookup": "first", "then": method}


GATE_VERSIONS = [(2, 2, 2), (2, 2, 3), (2, 2, 4), (2, 2, 10), (2, 5, 4), (2, 5, 5), (2, 5, 6), (2, 5, 10), (2, 5, 55),
                 (2, 5, 9), (2, 6, 0), (2, 6, 1), (2, 10, 0), (2, 9, 9), (2, 4, 99), (1, 99, 99), (3, 0, 0),
                 (10, 0, 0), (2, 3, 0), (2, 2, 30), (0, 9, 9), (2, 60, 0), (2, 55, 0)]


def gate_grid():
    for gate in GATES:
        for version in GATE_VERSIONS:
            yield {"gate": gate, "v": list(version)}
        yield {"gate": gate, "v": "silent"}
        yield {"gate": gate, "v": "garbage"}
        for banner in BANNERS[2:]:
            for version in ((2, 5, 4), (2, 9, 9), (2, 2, 2), (3, 0, 0)):
                yield {"gate": gate, "v": list(version), "banner": banner}
        for prior, version in (((2, 8, 1), (2, 2, 2)), ((2, 2, 2), (2, 8, 1)), ((2, 10, 0), (2, 5, 4)),
                               ((2, 5, 4), (2, 10, 0)), ((3, 0, 0), (1, 9, 9))):
            yield {"gate": gate, "v": list(version), "prior": list(prior)}
        yield {"gate": gate, "v": "silent", "prior": [2, 8, 1]}


@st.composite
def gate_cases(draw):
    gate = draw(st.sampled_from(sorted(GATES)))
    version = draw(st.one_of(TRIPLE, near(st.just(GATES[gate][0]))))
    case = {"gate": gate, "v": list(version)}
    if draw(st.integers(0, 2)) == 0:
        case["banner"] = draw(st.sampled_from(BANNERS))
    if draw(st.integers(0, 2)) == 0:
        case["prior"] = list(draw(st.one_of(TRIPLE, near(st.just(GATES[gate][0])), st.sampled_from(GATE_VERSIONS))))
    return case


def run(ctx):
    ctx.exhaustive("order_grid", order_grid(), body_order, "11^3 versions x 14 thresholds, both layers")
    ctx.exhaustive("connect_grid", connect_grid(), body_connect,
                   "5 device kinds x 14 versions x {no fault, 3 open faults, 3 exceptions x 4 probe operations, "
                   "3 lookups} + every request method after a refusal")
    ctx.exhaustive("gate_grid", gate_grid(), body_gate, "6 gated calls x 23 versions + silent + garbage")
    ctx.given("order", order_cases(), body_order, quick=4000, thorough=400000)
    ctx.given("connect", connect_cases(), body_connect, quick=3000, thorough=300000)
    ctx.given("gates", gate_cases(), body_gate, quick=1500, thorough=100000)


def replay(ctx, part, case):
    if "gate" in case:
        body_gate(ctx, case)
    elif "kind" in case:
        body_connect(ctx, case)
    else:
        body_order(ctx, case)
