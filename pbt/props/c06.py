"""C06 — motion/configuration helpers emit exactly the documented EBB command text."""
import inspect
import itertools

from hypothesis import strategies as st

from pbt import sut
from pbt.sut import call_sut
from pbt.fakes import quiet  # noqa: F401  (silences plotink's logger)
from pbt.fakes.port import FakePort
from pbt.fakes.board import Board
from pbt import ebb3_methods as em

ID = "C06"
RULE = ("For every helper of the legacy function layer (ebb_motion) and of the EBB3 class layer (ebb3_motion, "
        "ebb3_serial var/nickname/reboot helpers): generated integer arguments over the firmware ranges "
        "weighted on 0, +-1 and the range ends, optional arguments None / 0 / non-zero; the bytes written to "
        "a port that acknowledges everything are compared byte-for-byte with a table written from the EBB "
        "command documentation, and the two layers are compared with each other. Exhaustive: pauses n in "
        "-5..3000, resolutions (-3..9)^2, pins, clear values, HM positions. Sequences of 2..12 helper calls on one "
        "port / one EBB3 object with repeated argument values: every call must still emit its documented text "
        "(nothing remembered from earlier calls may change what is sent). Non-trivial: a case with a zero, "
        "negative or absent optional argument, a clamped resolution, or n > 750.")
ASSUMPTIONS = [
    "arguments are integers (None for an absent optional argument)",
    "the legacy servo_timeout / queryVoltage version probe 'V\\r' is not part of the emitted command and is "
    "excluded from the comparison",
    "for motors_enable the statement fixes the final EM command; what precedes it depends on the board's state and "
    "is only required to be among the documented preparations of the request at hand: CU,50,0 when exactly one "
    "motor is requested, QE / EM,r2,r2 when only motor 2 is; nothing for both-on or both-off",
]
REQUIRED_CLASSES = ["nontrivial", "optional_zero", "optional_absent", "optional_nonzero", "pause>750",
                    "pause<=0", "clamped", "lm_suppressed", "lm_sent", "cross_layer", "no_port", "sequence",
                    "sequence_repeats_a_call", "acknowledgements_delayed"]
QUICK_SHARDS = 4

ebb_motion = sut.load("ebb_motion")
ebb_serial = sut.load("ebb_serial")

I32 = st.one_of(st.sampled_from([0, 0, 1, -1, 2147483647, -2147483647, 65535, 255]),
                st.integers(-2147483647, 2147483647))
STEPS = st.one_of(st.sampled_from([0, 0, 1, -1, 8388607, -8388607]), st.integers(-8388607, 8388607))
DUR = st.one_of(st.sampled_from([1, 2, 750, 16777215]), st.integers(1, 16777215))
U16 = st.one_of(st.sampled_from([0, 1, 65535]), st.integers(0, 65535))
OPT = lambda s: st.one_of(st.none(), st.just(0), s)   # noqa: E731
PIN = st.integers(0, 7)
BIT = st.sampled_from([0, 1])
RES = st.integers(-3, 9)
PAUSE = st.one_of(st.sampled_from([-5, 0, 1, 2, 749, 750, 751, 1499, 1500, 1501, 2250]), st.integers(-10, 5000),
                  st.integers(-10, 5000), st.integers(5000, 2000000))


def clamp(r):
    return max(0, min(5, int(r)))


def pause_chunks(n):
    out = []
    while n > 0:
        d = min(n, 750)
        out.append("SM,%d,0,0" % d)
        n -= d
    return out


def opt_tail(*vals):
    return "".join(",%s" % v for v in vals if v is not None)


def lm_can_move(rate, steps, accel):
    return steps != 0 and not (rate == 0 and accel == 0)


# helper name -> (argument strategies, expected command list builder)
def exp_abs(rate, p1, p2):
    return ["HM,%s,%s,%s" % (rate, p1, p2)] if p1 is not None and p2 is not None else ["HM,%s" % rate]


def exp_lm(r1, s1, a1, r2, s2, a2, clear):
    if not lm_can_move(r1, s1, a1) and not lm_can_move(r2, s2, a2):
        return []
    return ["LM,%s,%s,%s,%s,%s,%s%s" % (r1, s1, a1, r2, s2, a2, opt_tail(clear))]


LEGACY = {
    "doABMove":          ((STEPS, STEPS, DUR), lambda a, b, d: ["XM,%s,%s,%s" % (d, a, b)]),
    "doTimedPause":      ((PAUSE,), pause_chunks),
    "doLowLevelMove":    ((I32, I32, I32, I32, I32, I32, OPT(st.integers(1, 3))), exp_lm),
    "doXYMove":          ((STEPS, STEPS, DUR), lambda dx, dy, d: ["SM,%s,%s,%s" % (d, dy, dx)]),
    "doAbsMove":         ((st.integers(2, 25000), OPT(I32), OPT(I32)), exp_abs),
    "sendDisableMotors": ((), lambda: ["EM,0,0"]),
    "sendEnableMotors":  ((RES,), lambda r: ["EM,%d,%d" % (clamp(r), clamp(r))]),
    "sendPenDown":       ((U16, OPT(PIN)), lambda d, p: ["SP,0,%s%s" % (d, opt_tail(p))]),
    "sendPenUp":         ((U16, OPT(PIN)), lambda d, p: ["SP,1,%s%s" % (d, opt_tail(p))]),
    "PBOutConfig":       ((PIN, BIT), lambda p, s: ["PO,B,%s,%s" % (p, s), "PD,B,%s,0" % p]),
    "PBOutValue":        ((PIN, BIT), lambda p, s: ["PO,B,%s,%s" % (p, s)]),
    "TogglePen":         ((), lambda: ["TP"]),
    "setPenDownPos":     ((U16,), lambda v: ["SC,5,%s" % v]),
    "setPenDownRate":    ((U16,), lambda v: ["SC,12,%s" % v]),
    "setPenUpPos":       ((U16,), lambda v: ["SC,4,%s" % v]),
    "setPenUpRate":      ((U16,), lambda v: ["SC,11,%s" % v]),
    "setEBBLV":          ((st.integers(0, 255),), lambda v: ["SL,%s" % v]),
    "queryEBBLV":        ((), lambda: ["QL"]),
    "servo_timeout":     ((st.integers(0, 60000), OPT(BIT)), lambda t, s: ["V", "SR,%s%s" % (t, opt_tail(s))]),
    "QueryPenUp":        ((), lambda: ["QP"]),
    "QueryPRGButton":    ((), lambda: ["QB"]),
    "query_steps":       ((), lambda: ["QS"]),
    "queryVoltage":      ((), lambda: ["V", "QC"]),
    "query_enable_motors": ((), lambda: ["PI,E,0", "PI,C,1", "PI,E,2", "PI,E,1", "PI,A,6"]),
}

EBB3 = {
    "timed_pause":       ((PAUSE,), pause_chunks),
    "xy_move":           ((STEPS, STEPS, DUR), lambda dx, dy, d: ["SM,%s,%s,%s" % (d, dy, dx)]),
    "abs_move":          ((st.integers(2, 25000), OPT(I32), OPT(I32)), exp_abs),
    "motors_disable":    ((), lambda: ["EM,0,0"]),
    "motors_query_enabled": ((), lambda: ["QE"]),
    "query_steps":       ((), lambda: ["QS"]),
    "clear_steps":       ((), lambda: ["CS"]),
    "clear_accumulators": ((), lambda: ["T3,1,0,0,0,0,0,0,3"]),
    "pen_lower":         ((U16, OPT(PIN)), lambda d, p: ["SP,0,%s%s" % (d, opt_tail(p))]),
    "pen_raise":         ((U16, OPT(PIN)), lambda d, p: ["SP,1,%s%s" % (d, opt_tail(p))]),
    "dio_b_config":      ((PIN, BIT, BIT), lambda p, s, d: ["PO,B,%s,%s" % (p, s), "PD,B,%s,%s" % (p, d)]),
    "dio_b_set":         ((PIN, BIT), lambda p, s: ["PO,B,%s,%s" % (p, s)]),
    "dio_b_read":        ((PIN,), lambda p: ["PI,B,%s" % p]),
    "pen_pos_down":      ((U16,), lambda v: ["SC,5,%s" % v]),
    "pen_pos_up":        ((U16,), lambda v: ["SC,4,%s" % v]),
    "pen_rate_down":     ((U16,), lambda v: ["SC,12,%s" % v]),
    "pen_rate_up":       ((U16,), lambda v: ["SC,11,%s" % v]),
    "servo_timeout":     ((st.integers(0, 60000), OPT(BIT)), lambda t, s: ["SR,%s%s" % (t, opt_tail(s))]),
    "query_voltage":     ((st.none(),), lambda th: ["QC"]),
    "query_current":     ((), lambda: ["QC"]),
    "var_write":         ((st.integers(0, 255), st.integers(0, 31)), lambda v, i: ["SL,%s,%s" % (v, i)]),
    "var_read":          ((st.integers(0, 31),), lambda i: ["QL,%s" % i]),
    "query_nickname":    ((), lambda: ["QT"]),
    "write_nickname":    ((st.sampled_from(["East", "a b", "X_1", "0"]),), lambda n: ["ST,%s" % n]),
    "reboot":            ((), lambda: ["RB"]),
    "bootload":          ((), lambda: ["BL"]),
    "query_statusbyte":  ((), lambda: ["QG"]),
}

# legacy helper -> (EBB3 method, argument mapping)
PAIRS = {
    "doTimedPause": ("timed_pause", lambda n: (n,)),
    "doXYMove": ("xy_move", lambda dx, dy, d: (dx, dy, d)),
    "doAbsMove": ("abs_move", lambda r, p1, p2: (r, p1, p2)),
    "sendDisableMotors": ("motors_disable", lambda: ()),
    "sendEnableMotors": ("motors_enable", lambda r: (r, r)),
    "sendPenDown": ("pen_lower", lambda d, p: (d, p)),
    "sendPenUp": ("pen_raise", lambda d, p: (d, p)),
    "PBOutConfig": ("dio_b_config", lambda p, s: (p, s, 0)),
    "PBOutValue": ("dio_b_set", lambda p, s: (p, s)),
    "setPenDownPos": ("pen_pos_down", lambda v: (v,)),
    "setPenDownRate": ("pen_rate_down", lambda v: (v,)),
    "setPenUpPos": ("pen_pos_up", lambda v: (v,)),
    "setPenUpRate": ("pen_rate_up", lambda v: (v,)),
    "servo_timeout": ("servo_timeout", lambda t, s: (t, s)),
    "query_steps": ("query_steps", lambda: ()),
}


def texts(writes):
    out = []
    for w in writes:
        out.append(w.decode("ascii", "replace"))
    return out


def verbose_call(fn, verbose, first, args):
    """How the caller spells the legacy helpers' trailing `verbose` flag: left out, positional (the pinned
    signatures all end in `verbose=True`, and that is how AxiDraw-style callers pass it) or by keyword.  A
    signature that does not accept the spelling is not this property's business: the flag is then left out."""
    extra, kwargs = (), {}
    if verbose == "pos":
        extra = (False,)
    elif verbose == "kw":
        kwargs = {"verbose": False}
    if extra or kwargs:
        try:
            inspect.signature(fn).bind(first, *args, *extra, **kwargs)
        except (TypeError, ValueError):
            extra, kwargs = (), {}
    return tuple(args) + extra, kwargs


def run_legacy(name, args, delay=(), verbose=None):
    # delay: empty reads (timeouts) the port delivers before successive reply lines - the device still
    # acknowledges every command, just not at once
    board = Board("legacy", version="2.8.1", lenient=True, empties=list(delay))
    port = FakePort(board)
    port.begin_call()
    fn = getattr(ebb_motion, name)
    pos, kwargs = verbose_call(fn, verbose, port, args)
    call_sut(fn, port, *pos, **kwargs)
    return texts(port.writes), port


def run_ebb3(name, args, delay=()):
    board = Board("ebb3", lenient=True)
    obj, port, board = em.new_connected(board)
    board.empties = list(delay)
    port.begin_call()
    call_sut(getattr(obj, name), *args)
    return texts(port.written_in_call()), obj


def classify(args, name):
    classes = set()
    for a in args:
        if a is None:
            classes.add("optional_absent")
    return classes


PAUSE_HELPERS = ("doTimedPause", "timed_pause")


def pause_problem(got, n):
    """The statement fixes no particular split: zero-move commands whose durations each lie in 1..750 and sum to n
    (none for n <= 0).  Returns a description of what is wrong, or None."""
    durations = []
    for text in got:
        parts = text.rstrip("\r").split(",")
        if len(parts) != 4 or parts[0] != "SM" or parts[2:] != ["0", "0"] or not text.endswith("\r") \
                or not parts[1].isdigit():
            return "%r is not a zero-move command SM,<duration>,0,0" % text
        durations.append(int(parts[1]))
    if n <= 0:
        return "a pause of %d ms must send nothing" % n if durations else None
    if not all(1 <= d <= 750 for d in durations):
        return "durations %r are not all within 1..750" % durations
    if sum(durations) != n:
        return "durations %r sum to %d, not %d" % (durations, sum(durations), n)
    return None


def check_exact(ctx, case, got, expected, what):
    want = [e + "\r" for e in expected]
    if case.get("helper") in PAUSE_HELPERS:
        problem = pause_problem(got, case["args"][0])
        if problem:
            ctx.fail("%s wrote %r: %s" % (what, got, problem), case)
        return
    if got != want:
        ctx.fail("%s wrote %r, documented command text is %r" % (what, got, want), case)


def body(ctx, case):
    layer, name, args = case["layer"], case["helper"], case["args"]
    table = LEGACY if layer == "legacy" else EBB3
    expected = table[name][1](*args)
    classes = {"layer_" + layer}
    optional = name in ("doLowLevelMove", "doAbsMove", "abs_move", "sendPenDown", "sendPenUp", "pen_lower",
                        "pen_raise", "servo_timeout")
    nontrivial = False
    if optional:
        tail = args[-1:] if name not in ("doAbsMove", "abs_move") else args[1:]
        for a in tail:
            if a is None:
                classes.add("optional_absent")
                nontrivial = True
            elif a == 0:
                classes.add("optional_zero")
                nontrivial = True
            else:
                classes.add("optional_nonzero")
    if name in ("doTimedPause", "timed_pause"):
        if args[0] > 750:
            classes.add("pause>750")
            nontrivial = True
        if args[0] <= 0:
            classes.add("pause<=0")
            nontrivial = True
    if name == "sendEnableMotors" and clamp(args[0]) != args[0]:
        classes.add("clamped")
        nontrivial = True
    if name == "doLowLevelMove":
        classes.add("lm_sent" if expected else "lm_suppressed")
        nontrivial = nontrivial or not expected or 0 in args[:6]
    if any(isinstance(a, int) and a <= 0 for a in args):
        nontrivial = True
    ctx.record((layer, name, args), classes, nontrivial)

    what = "%s.%s%r" % ("ebb_motion" if layer == "legacy" else "EBBMotionWrap", name, tuple(args))
    delay = case.get("delay", ())
    if delay:
        classes.add("acknowledgements_delayed")
        ctx.classes["acknowledgements_delayed"] += 1
        what += " (acknowledgements delayed by %r empty reads)" % (list(delay),)
    if layer == "legacy":
        verbose = case.get("verbose")
        if verbose:
            classes.add("verbose_" + verbose)
            ctx.classes["verbose_" + verbose] += 1
            what += " with the verbose flag %s" % ("as last positional argument (False)" if verbose == "pos"
                                                   else "as keyword (verbose=False)")
        got, _port = run_legacy(name, args, delay, verbose)
        check_exact(ctx, case, got, expected, what)
        if name in ("doTimedPause",):
            durations = [int(g.split(",")[1]) for g in got]
            n = args[0]
            if (n >= 1 and (sum(durations) != n or not all(1 <= d <= 750 for d in durations))) or \
                    (n <= 0 and durations):
                ctx.fail("%s: pause durations %r do not sum to n with each in 1..750" % (what, durations), case)
        # no port: nothing is sent, nothing raised
        call_sut(getattr(ebb_motion, name), None, *args)
        ctx.classes["no_port"] += 1
        if name in PAIRS:
            other, amap = PAIRS[name]
            got3, _obj = run_ebb3(other, amap(*args))
            legacy_cmp = [g for g in got if g != "V\r"]
            if other == "motors_enable":
                got3 = got3[-1:]
            if got3 != legacy_cmp:
                ctx.fail("layers disagree: %s wrote %r but EBBMotionWrap.%s%r wrote %r"
                         % (what, legacy_cmp, other, tuple(amap(*args)), got3), case)
            ctx.classes["cross_layer"] += 1
    else:
        got, obj = run_ebb3(name, args, delay)
        check_exact(ctx, case, got, expected, what)
        # with delayed acknowledgements only the emitted text is this property's business (how long a request waits
        # is C05's; query_statusbyte reads once by design)
        if obj.err is not None and not delay:
            ctx.fail("%s recorded an error against an acknowledging device: %r" % (what, obj.err), case)


def motors_allowed(c1, c2):
    """What may precede the final EM of motors_enable: CU,50,0 (the documented switch that lets one motor be
    enabled alone) only when exactly one motor is requested, and the resolution pre-set of the motor-2-only case
    (QE to read the scale in use, EM,r2,r2 to set it) only in that case; otherwise nothing."""
    allowed = set()
    if (c1 == 0) != (c2 == 0):
        allowed.add("CU,50,0\r")
    if c1 == 0 and c2 != 0:
        allowed |= {"QE\r", "EM,%d,%d\r" % (c2, c2)}
    return allowed


def motors_body(ctx, case):
    r1, r2, prior = case["r1"], case["r2"], case["prior"]
    board = Board("ebb3", lenient=False)
    obj, port, board = em.new_connected(board)
    board.motor1, board.motor2, board.mode = prior
    port.begin_call()
    call_sut(obj.motors_enable, r1, r2)
    got = texts(port.written_in_call())
    c1, c2 = clamp(r1), clamp(r2)
    ctx.record(("motors_enable", r1, r2, prior), {"motors_enable"} | ({"clamped"} if (c1, c2) != (r1, r2) else set()),
               nontrivial=(c1 == 0) != (c2 == 0) or (c1, c2) != (r1, r2))
    what = "motors_enable(%d, %d) from board state %r" % (r1, r2, prior)
    if not got or got[-1] != "EM,%d,%d\r" % (c1, c2):
        ctx.fail("%s: last command %r, expected 'EM,%d,%d'" % (what, got[-1:] and got[-1], c1, c2), case)
    allowed = motors_allowed(c1, c2)
    extra = [g for g in got[:-1] if g not in allowed]
    if extra:
        ctx.fail("%s: unexpected extra command(s) %r before the final EM (only %r may precede it for this request)"
                 % (what, extra, sorted(allowed)), case)
    if obj.err is not None:
        ctx.fail("%s recorded an error: %r" % (what, obj.err), case)


def sequence_body(ctx, case):
    """A sequence of helper calls on ONE port / ONE EBB3 object: every call must emit its documented text,
    whatever was sent before (repeated values, interleaved helpers)."""
    layer, steps = case["layer"], case["steps"]
    table = LEGACY if layer == "legacy" else EBB3
    repeated = any(steps[i] in steps[:i] for i in range(1, len(steps)))
    classes = {"sequence", "layer_" + layer}
    if repeated:
        classes.add("sequence_repeats_a_call")
    ctx.record(case, classes, nontrivial=repeated)
    if layer == "legacy":
        board = Board("legacy", version="2.8.1", lenient=True)
        port = FakePort(board)
        obj = None
    else:
        obj, port, board = em.new_connected(Board("ebb3", lenient=True))
    done = []
    for name, args in steps:
        port.begin_call()
        before = len(port.writes)
        if name == "motors_enable":
            # validity predicate (the preparatory commands depend on the board's state): the last command is the
            # clamped EM, everything before it is one of CU,50,0 / QE / EM,c2,c2 - and nothing else
            call_sut(obj.motors_enable, *args)
            got = texts(port.writes[before:])
            c1, c2 = clamp(args[0]), clamp(args[1])
            allowed = motors_allowed(c1, c2)
            if not got or got[-1] != "EM,%d,%d\r" % (c1, c2) or any(g not in allowed for g in got[:-1]):
                ctx.fail("after %r, EBBMotionWrap.motors_enable%r wrote %r; expected 'EM,%d,%d' last, preceded "
                         "only by commands from %r" % (done, tuple(args), got, c1, c2, sorted(allowed)), case)
            done.append([name, args])
            continue
        expected = table[name][1](*args)
        if layer == "legacy":
            call_sut(getattr(ebb_motion, name), port, *args)
        else:
            call_sut(getattr(obj, name), *args)
        got = texts(port.writes[before:])
        want = [e + "\r" for e in expected]
        if name in PAUSE_HELPERS:
            problem = pause_problem(got, args[0])
            if problem:
                ctx.fail("after %r, %s%r wrote %r: %s" % (done, name, tuple(args), got, problem), case)
            done.append([name, args])
            continue
        if got != want:
            ctx.fail("after %r, %s.%s%r wrote %r, documented command text is %r"
                     % (done, "ebb_motion" if layer == "legacy" else "EBBMotionWrap", name, tuple(args), got, want),
                     case)
        if obj is not None and obj.err is not None:
            ctx.fail("after %r, %s%r recorded an error against an acknowledging device: %r"
                     % (done, name, tuple(args), obj.err), case)
        done.append([name, args])


SEQ_SKIP = {"reboot", "bootload"}            # they close the port; covered by the single-call part


@st.composite
def sequences(draw):
    layer = draw(st.sampled_from(["legacy", "ebb3"]))
    table = LEGACY if layer == "legacy" else EBB3
    names = sorted(n for n in table if n not in SEQ_SKIP)
    if layer == "ebb3":
        names = names + ["motors_enable", "motors_enable"]
    focus = draw(st.lists(st.sampled_from(names), min_size=1, max_size=4))
    steps = []
    for _ in range(draw(st.integers(2, 12))):
        name = draw(st.sampled_from(focus + focus + names))
        previous = [a for n, a in steps if n == name]
        if previous and draw(st.integers(0, 2)) > 0:
            args = list(draw(st.sampled_from(previous)))
        elif name == "motors_enable":
            args = [draw(st.one_of(st.integers(0, 5), RES)), draw(st.one_of(st.integers(0, 5), RES))]
            if draw(st.booleans()):
                args[draw(st.integers(0, 1))] = 0
        else:
            args = [draw(strategy) for strategy in table[name][0]]
        steps.append([name, args])
    return {"layer": layer, "steps": steps}


def sequence_grid():
    """Every helper called twice with the same arguments, then once with other arguments, then again."""
    fixed = {"PAUSE": 800}
    for layer, table in (("legacy", LEGACY), ("ebb3", EBB3)):
        for name, (strats, _f) in sorted(table.items()):
            if name in SEQ_SKIP:
                continue
            samples = []
            for variant in (0, 1):
                args = []
                for strategy in strats:
                    if strategy is PAUSE:
                        args.append(800 + variant)
                    elif strategy is DUR:
                        args.append(100 + variant)
                    elif strategy is BIT:
                        args.append(variant)
                    elif strategy is PIN:
                        args.append(3 + variant)
                    elif strategy is RES:
                        args.append(1 + variant)
                    elif strategy is U16:
                        args.append(12000 + variant)
                    elif strategy in (I32, STEPS):
                        args.append(50 + variant)
                    else:
                        args.append(None)
                samples.append(args)
            if any(a is None for a in samples[0]):
                continue                     # helpers with ad-hoc strategies are covered by the generated part
            a, b = samples
            yield {"layer": layer, "steps": [[name, a], [name, a], [name, b], [name, a], [name, a]]}
    requests = [(0, 0), (0, 2), (2, 0), (2, 2), (1, 3), (0, 5), (5, 0), (3, 3)]
    for first, second in itertools.product(requests, repeat=2):
        yield {"layer": "ebb3", "steps": [["motors_enable", list(first)], ["motors_enable", list(second)],
                                         ["motors_disable", []], ["motors_enable", list(second)]]}


@st.composite
def cases(draw):
    layer = draw(st.sampled_from(["legacy", "ebb3"]))
    table = LEGACY if layer == "legacy" else EBB3
    name = draw(st.sampled_from(sorted(table)))
    args = [draw(s) for s in table[name][0]]
    case = {"layer": layer, "helper": name, "args": args}
    if draw(st.integers(0, 3)) == 0:
        case["delay"] = draw(st.lists(st.sampled_from([0, 1, 1, 2, 5]), min_size=1, max_size=6))
    if layer == "legacy":
        spelled = draw(st.sampled_from([None, None, "pos", "kw"]))
        if spelled:
            case["verbose"] = spelled
    return case


def grid():
    for n in range(-5, 3001):
        yield {"layer": "legacy", "helper": "doTimedPause", "args": [n]}
        yield {"layer": "ebb3", "helper": "timed_pause", "args": [n]}
    for n in (750 * 999, 750 * 1000 + 1, 1500000):
        # a quarter of an hour and more: over a thousand zero-move commands from one call
        yield {"layer": "legacy", "helper": "doTimedPause", "args": [n]}
        yield {"layer": "ebb3", "helper": "timed_pause", "args": [n]}
    for r in range(-3, 10):
        yield {"layer": "legacy", "helper": "sendEnableMotors", "args": [r]}
    for pin in [None] + list(range(8)):
        for delay in (0, 1, 500):
            for helper, layer in (("sendPenDown", "legacy"), ("sendPenUp", "legacy"),
                                  ("pen_lower", "ebb3"), ("pen_raise", "ebb3")):
                yield {"layer": layer, "helper": helper, "args": [delay, pin]}
    for p1, p2 in itertools.product([None, 0, 5, -5], repeat=2):
        yield {"layer": "legacy", "helper": "doAbsMove", "args": [1000, p1, p2]}
        yield {"layer": "ebb3", "helper": "abs_move", "args": [1000, p1, p2]}
    for clear in (None, 0, 1, 2, 3):
        for r1, s1, a1, r2, s2, a2 in itertools.product([0, 5], [0, 7], [0, -3], [0, 5], [0, -7], [0, 3]):
            yield {"layer": "legacy", "helper": "doLowLevelMove", "args": [r1, s1, a1, r2, s2, a2, clear]}
    for state in (None, 0, 1):
        for t in (0, 1, 60000):
            yield {"layer": "legacy", "helper": "servo_timeout", "args": [t, state]}
            yield {"layer": "ebb3", "helper": "servo_timeout", "args": [t, state]}
    for layer, table in (("legacy", LEGACY), ("ebb3", EBB3)):
        for name, (strats, _f) in sorted(table.items()):
            if not strats:
                yield {"layer": layer, "helper": name, "args": []}
                yield {"layer": layer, "helper": name, "args": [], "delay": [1, 2, 1, 1, 1]}
    for name, (strats, _f) in sorted(LEGACY.items()):
        # every legacy helper once with the trailing verbose flag passed the way its signature orders it
        sample = {"doABMove": [10, -5, 100], "doTimedPause": [800], "doLowLevelMove": [5, 7, 0, 5, -7, 0, None],
                  "doXYMove": [10, -5, 100], "doAbsMove": [1000, None, None], "sendEnableMotors": [1],
                  "sendPenDown": [100, None], "sendPenUp": [100, None], "PBOutConfig": [3, 1], "PBOutValue": [3, 1],
                  "setPenDownPos": [12000], "setPenDownRate": [400], "setPenUpPos": [18000], "setPenUpRate": [400],
                  "setEBBLV": [7], "servo_timeout": [5000, None]}.get(name, [])
        if len(sample) == len(strats):
            yield {"layer": "legacy", "helper": name, "args": sample, "verbose": "pos"}
            yield {"layer": "legacy", "helper": name, "args": sample, "verbose": "kw"}
    for helper, layer, args in (("doXYMove", "legacy", [10, -5, 100]), ("xy_move", "ebb3", [10, -5, 100]),
                                ("doTimedPause", "legacy", [1600]), ("timed_pause", "ebb3", [1600]),
                                ("sendPenDown", "legacy", [100, 2]), ("pen_lower", "ebb3", [100, 2]),
                                ("PBOutConfig", "legacy", [3, 1]), ("dio_b_config", "ebb3", [3, 1, 0]),
                                ("doAbsMove", "legacy", [1000, 0, 5]), ("abs_move", "ebb3", [1000, 0, 5])):
        for delay in ([1], [3], [0, 1], [2, 2, 2]):
            yield {"layer": layer, "helper": helper, "args": args, "delay": delay}


def motors_grid():
    priors = [(m1, m2, mode) for m1 in (0, 1) for m2 in (0, 1) for mode in (1, 2, 3, 4, 5)]
    for r1, r2, prior in itertools.product(range(-2, 9), range(-2, 9), priors):
        yield {"r1": r1, "r2": r2, "prior": list(prior)}


def run(ctx):
    ctx.exhaustive("grid", grid(), body,
                   "pauses -5..3000 (both layers), resolutions -3..9, pins x delays, HM positions, LM zero patterns "
                   "x clear, SR states, all argument-less helpers")
    ctx.exhaustive("motors-grid", motors_grid(), motors_body,
                   "motors_enable (r1, r2) in (-2..8)^2 x 20 prior board motor states")
    ctx.given("generated", cases(), body, quick=3000, thorough=300000)
    ctx.exhaustive("sequence-grid", sequence_grid(), sequence_body,
                   "every helper: same arguments twice, other arguments, the first arguments again (one object)")
    ctx.given("sequences", sequences(), sequence_body, quick=1500, thorough=150000)


def replay(ctx, part, case):
    if "steps" in case:
        sequence_body(ctx, case)
    elif "r1" in case:
        motors_body(ctx, case)
    else:
        body(ctx, case)
