"""C20 — xml_escape round-trips through an XML parser; format_hms encodes the rounded duration."""
import re
import xml.etree.ElementTree as ET
from fractions import Fraction as F

from hypothesis import strategies as st

from pbt import sut
from pbt.sut import call_sut

ID = "C20"
RULE = ("xml_escape: strings over the XML 1.0 Char production built from a token alphabet weighted on the five "
        "specials, pre-escaped entities (&amp; &lt; &#38; &#x26; ...), ';', '#', ']]>', '<!--', '<?', CR/LF/TAB, "
        "NEL/LS, plane boundaries (U+D7FF U+E000 U+FFFD U+10000 U+10FFFF) and arbitrary legal characters. Oracle: "
        "after deleting the five entity spellings no special character remains; expat parses <r>E</r>, <r a=\"E\"/> "
        "and <r a='E'/> back to the original modulo XML's own line-end / attribute-value normalisation; lxml agrees. "
        "format_hms: durations in [0, 1e7] s as int and float, and as milliseconds, weighted on 10, 59.5, 60, "
        "3599.5, 3600, 86400 and n*60 - 0.5 (+/- 0, 1e-9, 1/2, one ulp). Oracle: only the leading numeric field is "
        "decoded; d < 10 => N.NNN within 0.0005; otherwise whole seconds r with |r - d| <= 1/2, seconds and "
        "minutes fields 00..59, form dictated by r; format_hms(ms, True) == format_hms(ms / 1000). Non-trivial: a "
        "string with >= 1 special; a duration >= 10 s. Distinct = distinct inputs.")
ASSUMPTIONS = [
    "strings contain only XML 1.0 Char code points (no NUL/C0 controls other than TAB LF CR, no surrogates, no "
    "U+FFFE/U+FFFF), as the statement quantifies",
    "XML's own normalisation (CRLF/CR -> LF in content; TAB/LF -> space in attributes) is a property of XML, not "
    "of escaping: the comparison is against the normalised original",
    "the wording after the numeric field of format_hms is not part of the statement and is ignored; an exact tie "
    "(x.5 s) may round either way; a millisecond input within 1e-9 s of the 10 s switch is a don't-care",
]
REQUIRED_CLASSES = ["nontrivial", "has_amp", "has_lt", "has_gt", "has_quot", "has_apos", "pre_escaped", "astral",
                    "line_ends", "empty", "no_special", "under_10", "ss_form", "mss_form", "hmmss_form",
                    "carry_seconds", "carry_minutes", "millis", "int_input", "exact_tie"]
QUICK_SHARDS = 4

text_utils = sut.load("text_utils")
OPTION_PROBES = [(text_utils.xml_escape, ["input_text"], ["Layer \"1\" & 'notes' <x>"]),
                 (text_utils.format_hms, ["duration", "milliseconds"], [3725.4])]

ENTITIES = ["&amp;", "&lt;", "&gt;", "&quot;", "&apos;"]
SPECIALS = "&<>\"'"


def content_norm(text):
    return text.replace("\r\n", "\n").replace("\r", "\n")


def attr_norm(text):
    return content_norm(text).replace("\n", " ").replace("\t", " ")


def body_xml(ctx, case):
    text = case["s"]
    classes = set()
    for ch, name in (("&", "has_amp"), ("<", "has_lt"), (">", "has_gt"), ('"', "has_quot"), ("'", "has_apos")):
        if ch in text:
            classes.add(name)
    if any(e in text for e in ENTITIES) or "&#" in text:
        classes.add("pre_escaped")
    if any(ord(c) > 0xFFFF for c in text):
        classes.add("astral")
    if "\r" in text or "\n" in text or "\t" in text:
        classes.add("line_ends")
    if not text:
        classes.add("empty")
    special = any(c in text for c in SPECIALS)
    if not special:
        classes.add("no_special")
    ctx.record(case, classes, nontrivial=special)
    escaped = call_sut(text_utils.xml_escape, text)
    what = "xml_escape(%r) = %r" % (text, escaped)
    if not isinstance(escaped, str):
        ctx.fail(what + ": not a string", case)
    rest = escaped
    for ent in ENTITIES:
        rest = rest.replace(ent, "")
    left = sorted({c for c in rest if c in SPECIALS})
    if left:
        ctx.fail("%s still contains %r outside the five entities" % (what, "".join(left)), case)
    docs = (("element content", "<r>%s</r>" % escaped, content_norm(text), lambda el: el.text or ""),
            ("a double-quoted attribute", '<r a="%s"/>' % escaped, attr_norm(text), lambda el: el.get("a")),
            ("a single-quoted attribute", "<r a='%s'/>" % escaped, attr_norm(text), lambda el: el.get("a")))
    for where, doc, want, get in docs:
        try:
            back = get(ET.fromstring(doc))
        except ET.ParseError as exc:
            ctx.fail("%s: not well-formed in %s (%s)" % (what, where, exc), case)
        if back != want:
            ctx.fail("%s: read back from %s as %r, expected %r" % (what, where, back, want), case)
    if case.get("lxml", True):
        from lxml import etree
        for where, doc, want, get in docs:
            try:
                back = get(etree.fromstring(doc.encode("utf-8")))
            except etree.XMLSyntaxError as exc:
                ctx.fail("%s: lxml rejects it in %s (%s)" % (what, where, exc), case)
            if back != want:
                ctx.fail("%s: lxml reads it back from %s as %r, expected %r" % (what, where, back, want), case)


FIELD = re.compile(r"^(?:(\d+):(\d\d):(\d\d)|(\d{1,2}):(\d\d)|(\d\d)|(\d+\.\d\d\d))(?![\d:.])")


def decode(text):
    """Leading numeric field -> (form, seconds as Fraction, (h, m, s) fields) or None."""
    if not isinstance(text, str):
        return None
    m = FIELD.match(text)
    if not m:
        return None
    if m.group(1) is not None:
        h, mi, s = int(m.group(1)), int(m.group(2)), int(m.group(3))
        return "hmmss", F(h * 3600 + mi * 60 + s), (h, mi, s)
    if m.group(4) is not None:
        mi, s = int(m.group(4)), int(m.group(5))
        return "mss", F(mi * 60 + s), (None, mi, s)
    if m.group(6) is not None:
        return "ss", F(int(m.group(6))), (None, None, int(m.group(6)))
    return "millis", F(m.group(7)), None


def judge(ctx, case, what, got, d, switch_band):
    """d: exact duration in seconds (Fraction)."""
    dec = decode(got)
    if dec is None:
        ctx.fail("%s = %r: no leading numeric field of the form N.NNN, SS, M:SS or H:MM:SS" % (what, got), case)
    form, secs, fields = dec
    near_switch = switch_band > 0 and d != 10 and abs(d - 10) <= switch_band
    if d < 10 and not near_switch or (near_switch and form == "millis"):
        if form != "millis":
            ctx.fail("%s = %r: a time under 10 s must be printed to the millisecond" % (what, got), case)
        if abs(secs - d) > F(5, 10000) + switch_band:
            ctx.fail("%s = %r: differs from the duration by more than half a millisecond" % (what, got), case)
        return "under_10"
    if form == "millis":
        ctx.fail("%s = %r: a time of 10 s or more must be rounded to whole seconds" % (what, got), case)
    if abs(secs - d) > F(1, 2) + switch_band:
        ctx.fail("%s = %r encodes %d s, which is not the duration rounded to the nearest second"
                 % (what, got, secs), case)
    h, mi, s = fields
    if not 0 <= s <= 59 or (mi is not None and not 0 <= mi <= 59):
        ctx.fail("%s = %r: minutes/seconds field outside 00..59" % (what, got), case)
    want_form = "ss" if secs < 60 else ("mss" if secs < 3600 else "hmmss")
    if form != want_form:
        ctx.fail("%s = %r: %d s must be shown in the %s form" % (what, got, secs, want_form), case)
    return {"ss": "ss_form", "mss": "mss_form", "hmmss": "hmmss_form"}[form]


def body_hms(ctx, case):
    value, millis = case["d"], case["ms"]
    classes = set()
    exact = F(value) / 1000 if millis else F(value)
    if millis:
        classes.add("millis")
    if isinstance(value, int):
        classes.add("int_input")
    if exact >= 10 and (exact * 2) % 2 == 1:
        classes.add("exact_tie")
    rounded = int(exact + F(1, 2))
    if exact >= 10 and rounded % 60 == 0 and exact < rounded:
        classes.add("carry_seconds")
    if exact >= 10 and rounded % 3600 == 0 and exact < rounded:
        classes.add("carry_minutes")
    band = F(1, 10 ** 9) if millis else F(0)
    if millis:
        got = call_sut(text_utils.format_hms, value, True)
        what = "format_hms(%r, True)" % (value,)
    else:
        got = call_sut(text_utils.format_hms, value)
        what = "format_hms(%r)" % (value,)
    try:
        classes.add(judge(ctx, case, what, got, exact, band))
    finally:
        ctx.record(case, classes, nontrivial=exact >= 10)
    if millis:
        same = call_sut(text_utils.format_hms, value / 1000)
        if same != got:
            ctx.fail("%s = %r but format_hms(%r) = %r" % (what, got, value / 1000, same), case)
        also = call_sut(text_utils.format_hms, value / 1000, False)
        if also != got:
            ctx.fail("%s = %r but format_hms(%r, False) = %r" % (what, got, value / 1000, also), case)


# ------------------------------------------------------------------ generators
TOKENS = (list(SPECIALS) * 3 + ENTITIES * 2 +
          ["&#38;", "&#x26;", "&#60;", "&amp;amp;", "&amp;lt;", "&;", "&amp", "amp;", "&lt", "&apos", "&&", ";", "#",
           "]]>", "<![CDATA[", "<!--", "-->", "<?", "?>", "</r>", "<r>", "a=\"", "='", "\t", "\n", "\r", "\r\n",
           "\u0085", "\u2028", " ", "  ", "x", "AT", "T", "1", "\u00e9", "\u4e2d", "\ud7ff", "\ue000", "\ufffd",
           "\U00010000", "\U0001F600", "\U0010FFFF", "%", "\\", "/",
           # characters that look like, or are often "normalised" to, one of the five specials or to nothing
           "\u2018", "\u2019", "\u201c", "\u201d", "\u00ab", "\u00bb", "\u2039", "\u203a", "\uff06", "\uff1c", "\uff1e",
           "\uff02", "\uff07", "\u00a0", "\u00ad", "\u200b", "\u200d", "\ufeff", "\ufdd0", "\ufffc", "\u2032", "\u02bc",
           "\u0060", "\u00b4", "\u2026", "\u2013", "\u2014", "\u0085", "\u2029"])
XML_CHAR = st.one_of(
    st.sampled_from("\t\n\r"),
    st.characters(min_codepoint=0x20, max_codepoint=0xD7FF),
    st.characters(min_codepoint=0xE000, max_codepoint=0xFFFD),
    st.characters(min_codepoint=0x10000, max_codepoint=0x10FFFF),
)


@st.composite
def strings(draw):
    kind = draw(st.integers(0, 9))
    if kind == 0:
        return {"s": draw(st.text(XML_CHAR, max_size=30))}
    if kind == 1:
        return {"s": draw(st.text(st.sampled_from("abc &;<>\"'#x2638amp ltgquo"), max_size=24))}
    parts = draw(st.lists(st.one_of(st.sampled_from(TOKENS), st.sampled_from(TOKENS), XML_CHAR), max_size=12))
    return {"s": "".join(parts)}


def nudge_float(x, steps):
    import math
    for _ in range(abs(steps)):
        x = math.nextafter(x, math.inf if steps > 0 else -math.inf)
    return x


@st.composite
def durations(draw):
    millis = draw(st.integers(0, 2)) == 0
    kind = draw(st.integers(0, 9))
    if kind <= 4:
        base = draw(st.sampled_from([10, 59.5, 60, 119.5, 120, 599.5, 600, 3599.5, 3600, 3659.5, 7199.5, 7200,
                                     35999.5, 36000, 86399.5, 86400, 359999.5, 360000, 9.9995, 9.999, 99.5, 100,
                                     10.5, 11.5, 0, 1, 9]))
        if draw(st.integers(0, 4)) == 0:
            base = draw(st.integers(1, 166666)) * 60 - 0.5
        delta = draw(st.sampled_from([0, 0, 1e-9, -1e-9, 0.5, -0.5, 1e-4, -1e-4, 0.25, -0.25, 0.4999, -0.4999,
                                      "ulp+", "ulp-"]))
        if delta == "ulp+":
            secs = nudge_float(float(base), draw(st.integers(1, 2)))
        elif delta == "ulp-":
            secs = nudge_float(float(base), -draw(st.integers(1, 2)))
        else:
            secs = base + delta
        if secs < 0:
            secs = 0
    elif kind <= 6:
        secs = draw(st.integers(0, 10 ** 7))
    elif kind == 7:
        secs = draw(st.integers(0, 10 ** 10)) / 1000.0
    elif kind == 8:
        secs = draw(st.integers(0, 20000)) / 1000.0
    else:
        secs = draw(st.floats(min_value=0, max_value=1e7, allow_nan=False))
    if millis:
        value = secs * 1000
        if draw(st.booleans()) and float(value).is_integer():
            value = int(value)
        if value > 10 ** 10:
            value = 10 ** 10
    else:
        value = secs
        if isinstance(value, float) and value.is_integer() and draw(st.integers(0, 3)) == 0:
            value = int(value)
    return {"d": value, "ms": millis}


def hms_grid():
    for secs in list(range(0, 7300)) + [35999, 36000, 86399, 86400, 359999, 360000, 10 ** 7]:
        for off in (0, 0.25, 0.5, 0.75):
            if off == 0:
                yield {"d": secs, "ms": False}
                yield {"d": secs * 1000, "ms": True}
            else:
                yield {"d": secs + off, "ms": False}
                yield {"d": (secs + off) * 1000, "ms": True}


def xml_grid():
    import itertools
    atoms = list(SPECIALS) + ["&amp;", "&lt;", "a", ";", "\n", "\r"]
    for n in (0, 1, 2, 3):
        for combo in itertools.product(atoms, repeat=n):
            yield {"s": "".join(combo), "lxml": n < 3}


def run(ctx):
    ctx.exhaustive("xml_grid", xml_grid(), body_xml, "all strings of <= 3 atoms from the 5 specials, 2 entities, "
                                                   "a letter, ';', LF, CR")
    ctx.exhaustive("hms_grid", hms_grid(), body_hms, "every quarter second in [0, 7300) s + day/hour boundaries, "
                                                   "as seconds and as milliseconds")
    ctx.given("xml", strings(), body_xml, quick=6000, thorough=600000)
    ctx.given("hms", durations(), body_hms, quick=12000, thorough=1600000)
    if ctx.thorough and ctx.shard == 0:
        from pbt.fuzz import driver
        driver.run_stage(ctx, "c20_escape")


def replay(ctx, part, case):
    if "s" in case:
        body_xml(ctx, case)
    else:
        body_hms(ctx, case)
