"""C16 — board-state round trips through the EBB3 layer are faithful."""
import itertools

from hypothesis import strategies as st

from pbt import sut
from pbt.fakes import quiet  # noqa: F401
from pbt.fakes.board import Board
from pbt import ebb3_methods as em

ID = "C16"
RULE = ("Histories of 1..30 operations on EBBMotionWrap connected (through the real handshake) to a simulated board "
        "that implements SL/QL (32 byte slots), ST/QT (nickname), EM/QE (two enables + one global microstep mode) "
        "and CU: var_write_int32(v, slot) with v over the whole int32 range weighted on 0, +/-1, +/-2^7/2^8/2^15/2^16/"
        "2^23/2^24 carries, INT32_MIN/MAX and byte patterns, slots 0..28 with overlapping writes; var_read_int32; "
        "var_write / var_read of single bytes; write_nickname (0..16 printable characters plus outer padding) / "
        "query_nickname; motors_enable(r1, r2) with r in -2..8; motors_disable; motors_query_enabled; and an "
        "environment step that puts the board's motors in an arbitrary prior state. Oracle: a byte-array / "
        "nickname / motor model; after every write the board's slots hold the four big-endian bytes; every read "
        "equals the model; nickname read back trimmed; after motors_enable motor k is on <=> clamp(rk) != 0 and "
        "the global mode is clamp(r1) or, when that is 0, clamp(r2); motors_query_enabled reports exactly the "
        "board state; no error is recorded. Exhaustive: (r1, r2) in (-2..8)^2 x 20 prior states; 40 boundary "
        "values x 29 slots. Non-trivial: an int32 that is negative or has a non-zero high byte, or a motor "
        "request enabling exactly one motor. Distinct = distinct histories.")
ASSUMPTIONS = [
    "int32 values stay inside -2^31..2^31-1 and slots inside 0..28 / 0..31 as documented; nicknames are printable "
    "ASCII without the substring 'Err:' (which the framing layer would read as a device error); commas allowed",
    "the simulated board follows the EM documentation quoted in motors_enable's docstring: a non-zero first EM "
    "argument sets the global mode and enables motor 1, zero disables motor 1 and leaves the mode; the second "
    "argument only switches motor 2",
]
REQUIRED_CLASSES = ["nontrivial", "int32_negative", "int32_min", "int32_max", "overlapping_write", "slot_28",
                    "byte_write_then_int32_read", "nickname_padded", "nickname_empty", "only_motor2",
                    "only_motor1", "both_motors", "motors_off_request", "prior_mode_differs", "clamped_request",
                    "prior_state_set", "query_enabled", "nickname_case_change_only"]
QUICK_SHARDS = 4

INT32_MIN, INT32_MAX = -2 ** 31, 2 ** 31 - 1


def clamp(res):
    return max(0, min(5, int(res)))


class Sim:
    def __init__(self, ctx, case):
        self.ctx = ctx
        self.case = case
        self.obj, self.port, self.board = em.new_connected(Board("ebb3", version="3.0.2"))
        self.vars = [0] * 32
        self.nick = ""
        self.classes = set()
        self.nontrivial = False
        self.done = []
        self.written_ranges = []
        self.byte_written = False

    def fail(self, message):
        self.ctx.fail("%s (history so far: %r)" % (message, self.done), dict(self.case, ops=list(self.done)))

    def call(self, name, *args):
        self.port.begin_call({})
        try:
            ret = getattr(self.obj, name)(*args)
        except Exception as exc:  # pylint: disable=broad-except
            self.fail("%s%r raised %s: %s" % (name, args, type(exc).__name__, exc))
        if self.obj.err is not None:
            self.fail("%s%r recorded an error against a conforming board: %r" % (name, args, self.obj.err))
        return ret

    def step(self, op):
        self.done.append(op)
        kind = op[0]
        board = self.board
        if kind == "w32":
            value, slot = op[1], op[2]
            if value < 0:
                self.classes.add("int32_negative")
            if value == INT32_MIN:
                self.classes.add("int32_min")
            if value == INT32_MAX:
                self.classes.add("int32_max")
            if slot == 28:
                self.classes.add("slot_28")
            if any(abs(slot - s) < 4 and slot != s for s in self.written_ranges):
                self.classes.add("overlapping_write")
            self.written_ranges.append(slot)
            if value < 0 or (value >> 24) & 0xFF:
                self.nontrivial = True
            ret = self.call("var_write_int32", value, slot)
            want = list((value & 0xFFFFFFFF).to_bytes(4, "big"))
            self.vars[slot:slot + 4] = want
            if ret is not True:
                self.fail("var_write_int32(%d, %d) returned %r, expected True" % (value, slot, ret))
            if board.vars[slot:slot + 4] != want:
                self.fail("after var_write_int32(%d, %d) the board holds %r in slots %d..%d, expected the big-endian "
                          "bytes %r" % (value, slot, board.vars[slot:slot + 4], slot, slot + 3, want))
            if board.vars != self.vars:
                self.fail("var_write_int32(%d, %d) disturbed other slots: board %r, expected %r"
                          % (value, slot, board.vars, self.vars))
            back = self.call("var_read_int32", slot)
            if back != value or isinstance(back, bool):
                self.fail("var_write_int32(%d, %d) then var_read_int32(%d) = %r" % (value, slot, slot, back))
        elif kind == "r32":
            slot = op[1]
            want = int.from_bytes(bytes(self.vars[slot:slot + 4]), "big", signed=True)
            if self.byte_written:
                self.classes.add("byte_write_then_int32_read")
            got = self.call("var_read_int32", slot)
            if got != want or isinstance(got, bool):
                self.fail("var_read_int32(%d) = %r, expected %d (slots hold %r)"
                          % (slot, got, want, self.vars[slot:slot + 4]))
        elif kind == "w8":
            value, index = op[1], op[2]
            ret = self.call("var_write", value, index)
            self.vars[index] = value
            self.byte_written = True
            if ret is not True:
                self.fail("var_write(%d, %d) returned %r, expected True" % (value, index, ret))
            if board.vars != self.vars:
                self.fail("after var_write(%d, %d) the board holds %r, expected %r" % (value, index, board.vars,
                                                                                       self.vars))
        elif kind == "r8":
            index = op[1]
            got = self.call("var_read", index)
            if got != self.vars[index] or isinstance(got, bool):
                self.fail("var_read(%d) = %r, expected %d" % (index, got, self.vars[index]))
        elif kind == "nick":
            text = op[1]
            trimmed = text.strip()
            if trimmed != text:
                self.classes.add("nickname_padded")
            if not trimmed:
                self.classes.add("nickname_empty")
            if trimmed and self.nick and trimmed != self.nick and trimmed.lower() == self.nick.lower():
                self.classes.add("nickname_case_change_only")
            ret = self.call("write_nickname", text)
            self.nick = trimmed
            if ret is not True:
                self.fail("write_nickname(%r) returned %r, expected True" % (text, ret))
            if board.nickname != trimmed:
                self.fail("after write_nickname(%r) the board's nickname is %r, expected %r"
                          % (text, board.nickname, trimmed))
            self.obj.name = None
            self.call("query_nickname")
            if (self.obj.name or "") != trimmed:
                self.fail("write_nickname(%r) then query_nickname() gives name %r, expected %r"
                          % (text, self.obj.name, trimmed))
        elif kind == "qnick":
            self.obj.name = None
            self.call("query_nickname")
            if (self.obj.name or "") != self.nick:
                self.fail("query_nickname() gives name %r, expected %r" % (self.obj.name, self.nick))
        elif kind == "env":
            board.motor1, board.motor2, board.mode = op[1], op[2], op[3]
            self.classes.add("prior_state_set")
        elif kind == "me":
            r1, r2 = op[1], op[2]
            c1, c2 = clamp(r1), clamp(r2)
            prior = (board.motor1, board.motor2, board.mode)
            if (c1, c2) != (r1, r2):
                self.classes.add("clamped_request")
            if c1 == 0 and c2 != 0:
                self.classes.add("only_motor2")
                self.nontrivial = True
                if (prior[0] or prior[1]) and prior[2] != c2:
                    self.classes.add("prior_mode_differs")
            elif c1 != 0 and c2 == 0:
                self.classes.add("only_motor1")
                self.nontrivial = True
            elif c1 and c2:
                self.classes.add("both_motors")
            else:
                self.classes.add("motors_off_request")
            before = len(self.port.writes)
            self.call("motors_enable", r1, r2)
            sent = self.port.writes[before:]
            where = "motors_enable(%r, %r) from prior board state (motor1=%d, motor2=%d, mode=%d) sent %r: " % (
                r1, r2, prior[0], prior[1], prior[2], sent)
            if board.rejected:
                self.fail(where + "the board rejected %r" % (board.rejected,))
            if bool(board.motor1) != (c1 != 0):
                self.fail(where + "motor 1 is %s, expected %s" % ("on" if board.motor1 else "off",
                                                                 "on" if c1 else "off"))
            if bool(board.motor2) != (c2 != 0):
                self.fail(where + "motor 2 is %s, expected %s" % ("on" if board.motor2 else "off",
                                                                 "on" if c2 else "off"))
            if c1 or c2:
                want_mode = c1 if c1 else c2
                if board.mode != want_mode:
                    self.fail(where + "global microstep mode is %d, expected the requested resolution %d"
                              % (board.mode, want_mode))
            self._check_query(where)
        elif kind == "md":
            self.call("motors_disable")
            if board.motor1 or board.motor2:
                self.fail("after motors_disable() the board has motor1=%d motor2=%d" % (board.motor1, board.motor2))
            self._check_query("motors_disable(): ")
        elif kind == "qe":
            self._check_query("")
        else:
            raise sut.HarnessError("unknown op %r" % (op,))

    def _check_query(self, where):
        board = self.board
        self.classes.add("query_enabled")
        got = self.call("motors_query_enabled")
        want = (board.mode if board.motor1 else 0, board.mode if board.motor2 else 0)
        if not isinstance(got, tuple) or tuple(got) != want:
            self.fail(where + "motors_query_enabled() = %r, the board is in state %r" % (got, want))


def body(ctx, case):
    sim = Sim(ctx, case)
    try:
        for op in case["ops"]:
            sim.step(op)
    finally:
        ctx.record(case, sim.classes, sim.nontrivial)


# ------------------------------------------------------------------ generators
EDGE32 = [0, 1, -1, 127, 128, -128, -129, 255, 256, -256, -257, 32767, 32768, -32768, -32769, 65535, 65536, -65536,
          8388607, 8388608, -8388608, 16777215, 16777216, -16777216, -16777217, INT32_MAX, INT32_MAX - 1, INT32_MIN,
          INT32_MIN + 1, 0x01020304, -0x01020304, 0x7F808182, 0x00FF00FF, -0x00FF0100, 0x12345678, -0x12345678,
          0x7F000000, -0x7F000000, 0x00000080, 0x40000000]
INT32 = st.one_of(st.sampled_from(EDGE32), st.integers(INT32_MIN, INT32_MAX),
                  st.integers(0, 3).flatmap(lambda k: st.integers(-3, 3).map(lambda d: (1 << (8 * k + 7)) + d)),
                  st.integers(0, 3).flatmap(lambda k: st.integers(-3, 3).map(lambda d: -(1 << (8 * k + 7)) + d)))
INT32 = INT32.map(lambda v: max(INT32_MIN, min(INT32_MAX, v)))
NICK_CHARS = "abcdefghijklmnopqrstuvwxyzABCDEFGHIJKLMNOPQRSTUVWXYZ0123456789 _-.#@!()+=/:;"
SLOT = st.one_of(st.sampled_from([0, 1, 2, 3, 4, 27, 28]), st.integers(0, 28))


# nicknames are free text: protocol words inside them (the board family name, command names with their comma, the
# version banner's wording) are just characters
SPECIAL_NICKS = ["Errol", "Errata 2", "Err", "ERR", "err", "Studio Errata", "100% ink", "half 50%", "%s", "{0}", "%d%d",
                 "OK", "OKeefe", "!bang", "QT", "ST", "My EBB 2", "lab-EBB", "EBB", "EBBv13", "rig QT,2", "AQT,B", "a,b",
                 "QT,", ",x", "ST,ST", "QL,3", "Version 3.0", "v", "EM,1,1"]


@st.composite
def nicknames(draw):
    core = draw(st.one_of(st.text(NICK_CHARS, max_size=16), st.text(NICK_CHARS, max_size=16),
                          st.sampled_from(SPECIAL_NICKS), st.text("abAB01 %{}$()[]*+", max_size=16))).strip()
    if "Err:" in core:
        core = core.replace("Err:", "Err_")
    pad_l = draw(st.sampled_from(["", "", " ", "  ", "\t"]))
    pad_r = draw(st.sampled_from(["", "", " ", "   ", "\n"]))
    return pad_l + core + pad_r


@st.composite
def operations(draw):
    kind = draw(st.sampled_from(["w32", "w32", "w32", "r32", "w8", "r8", "nick", "qnick", "env", "me", "me", "me",
                                 "md", "qe"]))
    if kind == "w32":
        return ["w32", draw(INT32), draw(SLOT)]
    if kind == "r32":
        return ["r32", draw(SLOT)]
    if kind == "w8":
        return ["w8", draw(st.one_of(st.sampled_from([0, 1, 127, 128, 255]), st.integers(0, 255))),
                draw(st.integers(0, 31))]
    if kind == "r8":
        return ["r8", draw(st.integers(0, 31))]
    if kind == "nick":
        return ["nick", draw(nicknames())]
    if kind == "env":
        return ["env", draw(st.integers(0, 1)), draw(st.integers(0, 1)), draw(st.integers(1, 5))]
    if kind == "me":
        res = st.one_of(st.integers(0, 5), st.integers(-2, 8))
        r1, r2 = draw(res), draw(res)
        if draw(st.integers(0, 2)) == 0:
            r1 = draw(st.sampled_from([0, 0, -1]))
        return ["me", r1, r2]
    return [kind]


@st.composite
def histories(draw):
    n = draw(st.one_of(st.integers(1, 6), st.integers(1, 30)))
    ops = []
    for _ in range(n):
        op = draw(operations())
        if op[0] == "nick":
            earlier = [o[1] for o in ops if o[0] == "nick" and o[1].strip()]
            if earlier and draw(st.integers(0, 2)) == 0:
                # a new nickname that differs from an earlier one only in letter case / padding
                base = draw(st.sampled_from(earlier))
                op = ["nick", draw(st.sampled_from([base.upper(), base.lower(), base.swapcase(), " " + base.strip(),
                                                    base.strip().title()]))]
        elif op[0] == "w32":
            earlier = [o for o in ops if o[0] == "w32"]
            if earlier and draw(st.integers(0, 3)) == 0:
                # the same value again at the same or an overlapping slot
                prev = draw(st.sampled_from(earlier))
                op = ["w32", prev[1], max(0, min(28, prev[2] + draw(st.sampled_from([0, 0, 1, -1, 3, -3, 4]))))]
        ops.append(op)
    return {"ops": ops}


def motor_grid():
    for r1, r2 in itertools.product(range(-2, 9), repeat=2):
        for m1, m2, mode in itertools.product((0, 1), (0, 1), (1, 2, 3, 4, 5)):
            yield {"ops": [["env", m1, m2, mode], ["me", r1, r2]]}


def int32_grid():
    for slot in range(29):
        yield {"ops": [["w32", v, slot] for v in EDGE32] + [["r32", s] for s in range(29)]}


def nickname_grid():
    names = ["AxiDraw", "AXIDRAW", "axidraw", "Axi Draw", " AxiDraw ", "", "East", "east", "Errol", "100% ink", "OKeefe"]
    for a, b in itertools.product(names, repeat=2):
        yield {"ops": [["nick", a], ["nick", b], ["qnick"], ["nick", a], ["qnick"]]}


def run(ctx):
    ctx.exhaustive("nickname_grid", nickname_grid(), body, "every ordered pair of 11 nicknames (case / padding variants, Err.., %, OK..) "
                                                           "written in a row, read back, first written again")
    ctx.exhaustive("motor_grid", motor_grid(), body, "(r1, r2) in (-2..8)^2 x 20 prior board motor states")
    ctx.exhaustive("int32_grid", int32_grid(), body, "40 boundary int32 values x 29 slots, then every slot read back")
    ctx.given("histories", histories(), body, quick=1500, thorough=150000)


def replay(ctx, part, case):
    body(ctx, case)
