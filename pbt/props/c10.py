"""C10 — Bezier subdivision refines the same curve until every piece is flat."""
import math
import sys
from fractions import Fraction as F

from hypothesis import strategies as st

from pbt import sut
from pbt.sut import BudgetExceeded
from pbt.oracles import geom

ID = "C10"
RULE = ("Node lists of 1..5 cubic nodes [handle_in, point, handle_out] over scales 10^-1..10^3, lattice or "
        "dyadic-continuous, with retracted handles (15%), one collapsed handle (10%), repeated nodes, closed "
        "paths and single-piece loops; flatness = scale x 10^u, u in [-4, 0]. Oracle (exact rationals): the "
        "outer handles of the first/last node are unchanged; there is an order-preserving embedding of the "
        "original nodes such that the result pieces between consecutive images parse as a partition of [0,1] "
        "into aligned dyadic intervals whose exact blossom restrictions match each result piece's four control "
        "points within 1e-9 x scale (memoised search, no knowledge of the implementation's split order); every "
        "result piece has both inner control points at exact distance < flatness from its chord; the call "
        "returns within a deterministic line budget. Non-trivial: >= 1 node inserted. Distinct = (nodes, flat).")
ASSUMPTIONS = [
    "flatness / size ratios below 1e-4 are not generated (piece count grows as ratio^-1/2); 'terminates' is "
    "observed up to a budget of 3e6 executed lines (>= 50x the largest run on the unchanged tree)",
    "control points within 1e-9 x scale of the exact dyadic restriction count as equal",
]
REQUIRED_CLASSES = ["nontrivial", "nothing_inserted", "single_node", "closed", "retracted_handles",
                    "repeated_node", "loop_piece", "deep(>=5_levels)", "lattice", "multi_piece", "hook",
                    "flatness_relative_to_piece", "tiny_scale", "gentle_bow", "midpoint_on_end_node",
                    "points_as_tuples", "points_as_lists", "far_from_origin", "revisited_node"]
QUICK_SHARDS = 8
THOROUGH_SHARDS = 16
LINE_BUDGET = 3_000_000
MAX_DEPTH = 40

plot_utils = sut.load("plot_utils")
OPTION_PROBES = [(plot_utils.subdivideCubicPath, ["s_p", "flat", "i"],
                  [[[[0.0, 0.0], [0.0, 0.0], [30.0, 80.0]], [[70.0, 80.0], [100.0, 0.0], [100.0, 0.0]]], 0.5])]



def fpt(p):
    return (F(p[0]), F(p[1]))


def close(a, b, tol):
    return abs(a[0] - b[0]) <= tol and abs(a[1] - b[1]) <= tol


PARSE_BUDGET = 20000


class ParseUndecided(Exception):
    pass


def parse_piece(ctrl, res, j0, tol):
    """All result indices j1 > j0 such that result pieces j0..j1 parse as an aligned dyadic partition of
    [0,1] of the cubic `ctrl`.  Returns (set of j1, max depth used)."""
    m = len(res)
    ends = set()
    seen = set()
    maxdepth = [0]
    stack = [(j0, F(0), 0)]
    work = 0
    while stack:
        j, a, depth_used = stack.pop()
        if (j, a) in seen:
            continue
        seen.add((j, a))
        work += 1
        if work > PARSE_BUDGET:
            # a (nearly) degenerate cubic admits astronomically many parses; the search is cut deterministically
            # and the caller treats the piece as undecided (counted), never as a failure
            raise ParseUndecided()
        if a == 1:
            ends.add(j)
            maxdepth[0] = max(maxdepth[0], depth_used)
            continue
        if j + 1 >= m:
            continue
        c0, c1, c2, c3 = res[j][1], res[j][2], res[j + 1][0], res[j + 1][1]
        # left end must be the curve point at a
        if not close(geom.blossom(ctrl, a, a, a), c0, tol):
            continue
        for d in range(0, MAX_DEPTH + 1):
            width = F(1, 2 ** d)
            if (a / width).denominator != 1:
                continue                         # not aligned at this depth
            b = a + width
            if b > 1:
                continue
            if not close(geom.blossom(ctrl, b, b, b), c3, tol):
                continue
            if not close(geom.blossom(ctrl, a, a, b), c1, tol):
                continue
            if not close(geom.blossom(ctrl, a, b, b), c2, tol):
                continue
            stack.append((j + 1, b, max(depth_used, d)))
    return ends, maxdepth[0]


def body(ctx, case):
    nodes = case["nodes"]
    flat = case["flat"]
    scale = case["scale"]
    # callers hand in points as lists (cubicsuperpath) or as tuples (the repository's own tests): both are exercised
    mk = tuple if case.get("tuples") else list
    if case.get("shared"):
        # equal points are one object (a return stroke built by reversing the outbound nodes, a node whose handles
        # are retracted onto it): whatever the function writes, it must not write it into a point another node uses
        pool = {}
        s_p = [[pool.setdefault(tuple(h), mk(h)) for h in node] for node in nodes]
    else:
        s_p = [[mk(h) for h in node] for node in nodes]
    original = [[tuple(h) for h in node] for node in nodes]
    classes = set(case.get("tags", []))
    if len(nodes) == 1:
        classes.add("single_node")
    if len(nodes) > 2:
        classes.add("multi_piece")
    classes.add("points_as_tuples" if case.get("tuples") else "points_as_lists")
    if case.get("shared"):
        classes.add("shared_point_objects")
    if scale <= 1e-5:
        classes.add("tiny_scale")
    try:
        _res, lines = sut.call_budget(plot_utils.subdivideCubicPath, (s_p, flat), line_budget=LINE_BUDGET)
    except BudgetExceeded:
        ctx.record(case, classes, True)
        ctx.fail("subdivideCubicPath(%r, %r) did not finish within %d executed lines (%d nodes so far)"
                 % (nodes, flat, LINE_BUDGET, len(s_p)), case, expensive=True)
    except Exception as exc:  # pylint: disable=broad-except
        ctx.record(case, classes, True)
        ctx.fail("subdivideCubicPath(%r, %r) raised %s: %s" % (nodes, flat, type(exc).__name__, exc), case)
    ctx.notes["max_lines_seen"] = max(ctx.notes.get("max_lines_seen", 0), lines)
    inserted = len(s_p) - len(nodes)
    classes.add("nothing_inserted" if inserted == 0 else "inserted")
    what = "subdivideCubicPath(%r, %r)" % (nodes, flat)
    try:
        res = [[fpt(h) for h in node] for node in s_p]
        if any(len(node) != 3 for node in s_p):
            raise ValueError
    except Exception:  # pylint: disable=broad-except
        ctx.record(case, classes, inserted > 0)
        ctx.fail("%s left a malformed node list" % what, case)
    if not all(math.isfinite(float(c)) for node in res for h in node for c in h):
        ctx.fail("%s produced non-finite coordinates" % what, case)
    orig = [[fpt(h) for h in node] for node in original]
    # "equal" control points: within 1e-9 of the drawing's size, or - for a drawing far from the origin, whose
    # midpoints round at the magnitude of the coordinates - within 64 float steps of the largest coordinate
    in_extent = max([abs(c) for node in orig for h in node for c in h] + [F(scale)])
    tol = max(F(scale) / 10 ** 9, in_extent * F(1, 2 ** 46))        # 1e-9 of the size, or 64 float steps
    # (i) outer handles intact
    if res[0][0] != orig[0][0] or res[-1][2] != orig[-1][2]:
        ctx.record(case, classes, inserted > 0)
        ctx.fail("%s changed the outer handle of the first or last node" % what, case)
    # (ii) embedding + dyadic parse, piece by piece (set of reachable result indices)
    reach = {0}
    if res[0][1] != orig[0][1]:
        ctx.record(case, classes, inserted > 0)
        ctx.fail("%s: first node moved" % what, case)
    deepest = 0
    identity_undecided = False
    for k in range(len(orig) - 1):
        ctrl = (orig[k][1], orig[k][2], orig[k + 1][0], orig[k + 1][1])
        nxt = set()
        undecided = False
        for j0 in sorted(reach):
            try:
                ends, depth = parse_piece(ctrl, res, j0, tol)
            except ParseUndecided:
                undecided = True
                break
            for j1 in ends:
                if res[j1][1] == orig[k + 1][1]:      # the original node itself survives, exactly
                    nxt.add(j1)
                    deepest = max(deepest, depth)
        if undecided:
            identity_undecided = True
            ctx.count("curve_identity_undecided(parse budget)")
            break
        if not nxt:
            ctx.record(case, classes, inserted > 0)
            ctx.fail("%s: the result nodes after original node %d do not trace original piece %d as a "
                     "partition into dyadic sub-curves ending at original node %d (result has %d nodes)"
                     % (what, k, k, k + 1, len(res)), case)
        reach = nxt
    if not identity_undecided and (len(res) - 1) not in reach:
        ctx.record(case, classes, inserted > 0)
        ctx.fail("%s: result has nodes beyond the image of the last original node" % what, case)
    if deepest >= 5:
        classes.add("deep(>=5_levels)")
    # (iii) flatness of every resulting piece
    fflat = F(flat)
    # the implementation measures the distance with a float cross product of coordinates of size `extent`: its
    # rounding error is about eps * extent, i.e. a relative error of eps * extent / flat on a distance near `flat`
    extent = max([abs(c) for node in res for h in node for c in h] + [F(scale)])
    slack = max(F(1, 10 ** 9), F(64, 2 ** 52) * extent / fflat)
    limit = (fflat * (1 + slack)) ** 2
    # "closer than the flatness" is strict.  Where the code's own arithmetic is exact - an ORIGINAL piece left
    # unsplit, whose coordinates are small integers times a power of two, with a chord of rational length - a
    # control point exactly AT the flatness distance is a tie the float comparison sees as such, and it must split.
    orig_pieces = set()
    if case.get("exact"):
        orig_pieces = {(orig[k][1], orig[k][2], orig[k + 1][0], orig[k + 1][1]) for k in range(len(orig) - 1)}
    for j in range(len(res) - 1):
        a, b = res[j][1], res[j + 1][1]
        piece_limit = limit
        if (a, res[j][2], res[j + 1][0], b) in orig_pieces:
            piece_limit = fflat ** 2
            classes.add("exact_unsplit_original_piece")
        for inner in (res[j][2], res[j + 1][0]):
            if not geom.sqdist_point_segment(inner, a, b) < piece_limit:
                ctx.record(case, classes, inserted > 0)
                ctx.fail("%s: piece %d of the result is not flat: control point (%r, %r) is %.6g from its "
                         "chord (flatness %r)" % (what, j, float(inner[0]), float(inner[1]),
                                                  math.sqrt(float(geom.sqdist_point_segment(inner, a, b))),
                                                  flat), case)
    ctx.record(case, classes, nontrivial=inserted > 0)
    ctx.count("nodes_inserted", inserted)


@st.composite
def cases(draw):
    scale = 10.0 ** draw(st.sampled_from([-1, 0, 1, 2, 3, -1, 0, 1, 2, 3, -9, -7, -5, -3, 6]))
    lattice = draw(st.booleans())
    denom = 1 if lattice else draw(st.sampled_from([4, 64, 1 << 20]))
    tags = {"lattice"} if lattice else set()

    def coord():
        return scale * draw(st.integers(-10 * denom, 10 * denom)) / denom

    def point():
        return [coord(), coord()]
    n = draw(st.sampled_from([1, 2, 2, 2, 3, 3, 4, 5]))
    nodes = []
    for i in range(n):
        p = point()
        kind = draw(st.integers(0, 19))
        if nodes and draw(st.integers(0, 9)) == 0:
            p = list(nodes[-1][1])
            tags.add("repeated_node")
        if kind < 3:
            node = [list(p), p, list(p)]
            tags.add("retracted_handles")
        elif kind < 5:
            node = [list(p), p, point()] if draw(st.booleans()) else [point(), p, list(p)]
            tags.add("collapsed_handle")
        elif kind < 8:
            # smooth node: handles opposite each other
            dx, dy = coord() / 3, coord() / 3
            node = [[p[0] - dx, p[1] - dy], p, [p[0] + dx, p[1] + dy]]
        else:
            node = [point(), p, point()]
        nodes.append(node)
    if n >= 3 and draw(st.integers(0, 5)) == 0:
        # the path comes back to a corner it has already visited: a later node equal to an earlier one in all three
        # points (a flag on a pole, a figure eight) - equal values, distinct objects
        j = draw(st.integers(0, n - 3))
        k = draw(st.integers(j + 2, n - 1))
        nodes[k] = [list(h) for h in nodes[j]]
        tags.add("revisited_node")
    if n >= 2 and draw(st.integers(0, 5)) == 0:
        nodes[-1][1] = list(nodes[0][1])
        tags.add("closed")
        if n == 2:
            tags.add("loop_piece")
    special = draw(st.integers(0, 11))
    if special == 0:
        # a long stroke that is only gently bowed: the chord is 1e5..1e9 times the flatness and the handles sit a
        # few flatnesses off the chord (accept/split is decided by a tiny cross product of large coordinates)
        length = scale * draw(st.sampled_from([1.0, 10.0]))
        ratio = 10.0 ** draw(st.integers(5, 9))
        flat_g = length / ratio
        ang = draw(st.integers(0, 359)) * math.pi / 180
        ux, uy = math.cos(ang), math.sin(ang)
        x0, y0 = coord(), coord()
        m1 = draw(st.sampled_from([0.0, 0.6, 1.2, 2.3, 5.0, -2.3, 20.0]))
        m2 = draw(st.sampled_from([0.0, 0.6, 1.2, 2.3, 5.0, -2.3, 20.0]))
        p0 = [x0, y0]
        p3 = [x0 + length * ux, y0 + length * uy]
        h1 = [x0 + length * ux / 3 - m1 * flat_g * uy, y0 + length * uy / 3 + m1 * flat_g * ux]
        h2 = [x0 + 2 * length * ux / 3 - m2 * flat_g * uy, y0 + 2 * length * uy / 3 + m2 * flat_g * ux]
        nodes = [[list(p0), p0, h1], [h2, p3, list(p3)]]
        return {"nodes": nodes, "flat": flat_g, "scale": scale, "tags": sorted(tags | {"gentle_bow"})}
    if special == 1:
        # coincidence: the point at t = 1/2 of a loop-like piece lands exactly on one of its own end nodes
        # (p0 + 3 p1 + 3 p2 + p3 = 8 p0, all on a lattice so that it is exact)
        k = draw(st.sampled_from([1, 2, 4]))
        p0 = [float(draw(st.integers(-3, 3))) * scale, float(draw(st.integers(-3, 3))) * scale]
        p1 = [p0[0] + k * scale * draw(st.integers(-3, 3)), p0[1] + k * scale * draw(st.integers(-3, 3))]
        p2 = [p0[0] + k * scale * draw(st.integers(-3, 3)), p0[1] + k * scale * draw(st.integers(-3, 3))]
        p3 = [7 * p0[0] - 3 * p1[0] - 3 * p2[0], 7 * p0[1] - 3 * p1[1] - 3 * p2[1]]
        if draw(st.booleans()):
            p0, p1, p2, p3 = p3, p2, p1, p0                      # the midpoint lands on the far end node instead
        nodes = [[list(p0), p0, p1], [p2, p3, list(p3)]]
        flat_m = scale * draw(st.sampled_from([0.5, 0.1, 0.02]))
        return {"nodes": nodes, "flat": flat_m, "scale": scale, "tags": sorted(tags | {"midpoint_on_end_node"})}
    if n >= 2 and draw(st.integers(0, 5)) == 0:
        # a tight hook: both inner handles of one piece sit together just past the far end of its chord
        k = draw(st.integers(0, n - 2))
        far = nodes[k + 1][1]
        off = [coord() / draw(st.sampled_from([4, 8, 16])), coord() / draw(st.sampled_from([4, 8, 16]))]
        tip = [far[0] + off[0], far[1] + off[1]]
        nodes[k][2] = list(tip)
        nodes[k + 1][0] = list(tip) if draw(st.booleans()) else [tip[0] + off[1] / 8, tip[1] - off[0] / 8]
        tags.add("hook")
    flat = scale * 10.0 ** (draw(st.integers(-16, 0)) / 4)
    if n >= 2 and draw(st.booleans()):
        # flatness as a fraction of how far some piece's control points actually are from its chord, so that the
        # accept/split decision of the first levels is close (0.26 .. 1.2 of that distance)
        k = draw(st.integers(0, n - 2))
        a, b = nodes[k][1], nodes[k + 1][1]
        dist = 0.0
        for c in (nodes[k][2], nodes[k + 1][0]):
            dist = max(dist, math.sqrt(float(geom.sqdist_point_segment(geom.pt(c), geom.pt(a), geom.pt(b)))))
        frac = draw(st.sampled_from([0.26, 0.3, 0.4, 0.49, 0.51, 0.55, 0.6, 0.65, 0.7, 0.74, 0.76, 0.9, 0.99, 1.01,
                                     1.2, 0.13, 0.06]))
        if dist * frac >= scale * 1e-4:
            flat = dist * frac
            tags.add("flatness_relative_to_piece")
    return {"nodes": nodes, "flat": flat, "scale": scale, "tags": sorted(tags)}


@st.composite
def tie_cases(draw):
    """One piece on an axis-parallel or 3-4-5 chord with small integer coordinates (times a power of two), whose
    inner control points sit at exactly the flatness distance from the chord, or one grid step inside / outside."""
    unit = 2.0 ** draw(st.integers(-12, 12))
    h = draw(st.integers(1, 12))
    length = draw(st.integers(2, 16))
    a = draw(st.integers(0, length))
    b = draw(st.integers(0, length))
    off1 = draw(st.sampled_from([0, 0, 0, -1, 1]))
    off2 = draw(st.sampled_from([0, 0, -1, -h]))
    side2 = draw(st.sampled_from([1, 1, -1]))
    frame = draw(st.sampled_from(["x", "y", "345"]))

    def place(along, across):
        if frame == "x":
            return [along * unit, across * unit]
        if frame == "y":
            return [-across * unit, along * unit]
        # unit vectors (3,4)/5 and (-4,3)/5, everything scaled by 5 so that coordinates stay integers
        return [(3 * along - 4 * across) * unit, (4 * along + 3 * across) * unit]
    k = 5 if frame == "345" else 1
    p0, p3 = place(0, 0), place(length, 0)
    p1, p2 = place(a, h + off1), place(b, side2 * (h + off2))
    tags = ["tie_piece"]
    if off1 == 0 or off2 == 0:
        tags.append("control_point_exactly_at_flatness")
    return {"nodes": [[list(p0), list(p0), p1], [p2, list(p3), list(p3)]], "flat": h * k * unit,
            "scale": max(length, h) * k * unit, "tags": tags, "exact": True, "tuples": draw(st.booleans())}


@st.composite
def typed_cases(draw):
    if draw(st.integers(0, 14)) == 0:
        return draw(tie_cases())
    if draw(st.integers(0, 59)) == 0:
        m = draw(st.sampled_from([90, 150, 260]))
        return {"nodes": wavy_stroke(m, amp=draw(st.sampled_from([3.0, 6.0, 9.0]))),
                "flat": draw(st.sampled_from([0.05, 0.02, 0.1])), "scale": 10.0 * m, "tags": ["long_stroke"],
                "tuples": draw(st.booleans())}
    case = draw(cases())
    case["tuples"] = draw(st.booleans())
    # the same path far from the origin (a large sheet, other user units): translate by 2^10..2^30 of its scale, but
    # only as far as the flatness stays >= 2^12 float steps of the translated coordinates (beyond that no midpoint
    # can get closer than the flatness any more and no implementation can terminate)
    k_max = min(30, int(math.floor(40 + math.log2(case["flat"] / case["scale"]))))
    if k_max >= 10 and draw(st.integers(0, 4)) == 0:
        off = case["scale"] * 2.0 ** draw(st.integers(10, k_max))
        ox, oy = off * draw(st.sampled_from([1, -1, 1, 0])), off * draw(st.sampled_from([1, -1, 1]))
        case["nodes"] = [[[h[0] + ox, h[1] + oy] for h in node] for node in case["nodes"]]
        case["tags"] = sorted(set(case["tags"]) | {"far_from_origin"})
    if 2 <= len(case["nodes"]) <= 4 and draw(st.integers(0, 5)) == 0:
        # out along the curve and back again: the return half is the outbound half reversed ([in, pt, out] ->
        # [out, pt, in]) behind a U-turn node
        out = case["nodes"]
        turn = [list(out[-1][0]), list(out[-1][1]), list(out[-1][0])]
        back = [[list(n[2]), list(n[1]), list(n[0])] for n in reversed(out[:-1])]
        case["nodes"] = [[list(h) for h in n] for n in out[:-1]] + [turn] + back
        case["tags"] = sorted(set(case["tags"]) | {"retraced"})
        case["shared"] = draw(st.booleans())
    elif draw(st.integers(0, 5)) == 0:
        case["shared"] = True
    return case


def wavy_stroke(m, step=10.0, amp=6.0, handle=4.0):
    """A long hand-drawn stroke: m smooth nodes every `step` units, alternately `amp` above and below the axis."""
    nodes = []
    for k in range(m):
        x, y = step * k, (amp if k % 2 else -amp)
        nodes.append([[x - handle, y], [x, y], [x + handle, y]])
    return nodes


def fixed_cases():
    """Hand-picked shapes every run covers: loop with coincident end nodes, repeated node with retracted
    handles, straight line, S-curve, cusp."""
    yield {"nodes": [[[0.0, 0.0], [0.0, 0.0], [100.0, 50.0]], [[-100.0, 50.0], [0.0, 0.0], [0.0, 0.0]]],
           "flat": 0.1, "scale": 100.0, "tags": ["closed", "loop_piece"]}
    yield {"nodes": [[[1.0, 1.0], [1.0, 1.0], [1.0, 1.0]], [[1.0, 1.0], [1.0, 1.0], [1.0, 1.0]]],
           "flat": 0.01, "scale": 1.0, "tags": ["repeated_node", "retracted_handles"]}
    yield {"nodes": [[[0.0, 0.0], [0.0, 0.0], [0.0, 0.0]], [[10.0, 0.0], [10.0, 0.0], [10.0, 0.0]],
                     [[10.0, 10.0], [10.0, 10.0], [10.0, 10.0]], [[0.0, 0.0], [0.0, 0.0], [0.0, 0.0]]],
           "flat": 0.05, "scale": 10.0, "tags": ["closed", "retracted_handles"]}
    yield {"nodes": [[[0.0, 0.0], [0.0, 0.0], [30.0, 40.0]], [[70.0, -40.0], [100.0, 0.0], [100.0, 0.0]]],
           "flat": 0.01, "scale": 100.0, "tags": []}
    yield {"nodes": [[[0.0, 0.0], [0.0, 0.0], [100.0, 100.0]], [[0.0, 100.0], [100.0, 0.0], [100.0, 0.0]]],
           "flat": 0.02, "scale": 100.0, "tags": []}
    yield {"nodes": [[[5.0, 5.0], [0.0, 0.0], [5.0, 5.0]]], "flat": 0.1, "scale": 5.0, "tags": []}
    yield {"nodes": [[[0.0, 0.0], [0.0, 0.0], [30.0, 80.0]], [[70.0, 80.0], [100.0, 0.0], [70.0, 80.0]],
                     [[30.0, 80.0], [0.0, 0.0], [0.0, 0.0]]],
           "flat": 0.5, "scale": 100.0, "tags": ["retraced"], "shared": True}
    # ties: both inner control points exactly 0.5 (resp. 2) from the chord - not *closer than* the flatness
    yield {"nodes": [[[0.0, 0.0], [0.0, 0.0], [1.0, 0.5]], [[3.0, 0.5], [4.0, 0.0], [4.0, 0.0]]],
           "flat": 0.5, "scale": 4.0, "tags": ["tie_piece", "control_point_exactly_at_flatness"], "exact": True}
    yield {"nodes": [[[0.0, 0.0], [0.0, 0.0], [3.0, 2.0]], [[9.0, 2.0], [12.0, 0.0], [12.0, 0.0]]],
           "flat": 2.0, "scale": 12.0, "tags": ["tie_piece", "control_point_exactly_at_flatness"], "exact": True}
    # one call that has to insert well over a thousand nodes (text outlines and long strokes at fine smoothness do)
    yield {"nodes": wavy_stroke(150), "flat": 0.05, "scale": 1500.0, "tags": ["long_stroke"]}
    corner = [[0.0, 10.0], [0.0, 10.0], [0.0, 10.0]]
    yield {"nodes": [[[0.0, 0.0], [0.0, 0.0], [0.0, 0.0]], [list(h) for h in corner],
                     [[6.0, 10.0], [8.0, 8.0], [8.0, 4.0]], [list(h) for h in corner]],
           "flat": 0.05, "scale": 10.0, "tags": ["revisited_node"]}


def run(ctx):
    ctx.exhaustive("fixed-shapes", fixed_cases(), body, "eleven hand-picked shapes (two pieces whose control points sit exactly at the flatness distance, loop, repeated node, polygon, flag revisiting a corner, out-and-back stroke with shared points, a 150-node stroke that needs > 1000 insertions, "
                   "S-curve, cusp, single node)")
    ctx.given("generated", typed_cases(), body, quick=800, thorough=40000)


def replay(ctx, part, case):
    body(ctx, case)
