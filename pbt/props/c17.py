"""C17 — reported peak T3 rate brackets the true peak within one jerk increment."""
from hypothesis import strategies as st, target

from pbt import sut
from pbt.sut import call_sut
from pbt.oracles import firmware as fw
from pbt.gen_firmware import t3_moves, rates_valid

ID = "C17"
RULE = ("Cases (T, rate, accel, jerk) are built constructively in the firmware-valid domain with the "
        "parabola vertex placed before / at the first ticks / strictly inside / at the last ticks / after "
        "the move (60% of cases); oracle = exact max_k |r_k| from the integer recurrence (tick loop for "
        "T <= 4096). Asserted: got <= peak, got >= |r_1|, got >= |r_T|, peak - got <= |jerk|. Non-trivial: "
        "the peak is strictly larger than both end rates (interior extremum). A quarter of the cases ask the same "
        "profile for up to three further durations T' <= T in a row (each call judged on its own), and an "
        "eighth construct the coincidence r_T = -r_1. Distinct = argument tuples.")
ASSUMPTIONS = [
    "firmware-valid integer moves only, as the quantifier says; the corollary about over-range moves is "
    "not tested separately",
]
REQUIRED_CLASSES = ["nontrivial", "vertex_in_first_3", "vertex_in_last_3", "vertex_outside", "jerk_zero",
                    "T<=3", "loop_validated", "same_profile_other_duration",
                    "end_rates_opposite_equal"]
QUICK_SHARDS = 4

ebb_calc = sut.load("ebb_calc")
OPTION_PROBES = [(ebb_calc.max_rate_t3, ["time", "rate", "accel", "jerk"], [41, 100000000, -100000000, 5000000]),
                 (ebb_calc.rate_t3, ["time", "rate", "accel", "jerk"], [41, 100000000, -100000000, 5000000])]



def body(ctx, case):
    """One profile, one or more durations in a row (case["also_T"]): every call must satisfy the statement,
    whatever was asked before."""
    if case.get("t0"):
        # a zero-duration query for this profile first (T = 0 is outside the quantifier: its result is not judged)
        ctx.classes["zero_duration_query_first"] += 1
        for fn in (ebb_calc.max_rate_t3, ebb_calc.rate_t3):
            try:
                fn(0, case["rate"], case["accel"], case["jerk"])
            except Exception:  # pylint: disable=broad-except
                pass
    durations = [case["T"]] + [t for t in case.get("also_T", [])]
    if case.get("also_first"):
        durations = durations[1:] + durations[:1]
    for T in durations:
        one(ctx, dict(case, T=T), case, len(durations) > 1)


def one(ctx, case, whole, in_sequence):
    T, rate, accel, jerk = case["T"], case["rate"], case["accel"], case["jerk"]
    if not rates_valid(T, rate, accel, jerk):
        raise sut.HarnessError("generator produced an out-of-domain T3 move: %r" % (case,))
    _pos, _acc, r_end, peak, looped = fw.t3_expected(rate, accel, jerk, T, 0)
    r1 = fw.t3_rate(rate, accel, jerk, 1)
    classes = set()
    if jerk == 0:
        classes.add("jerk_zero")
    else:
        # vertex position, exact: k* = (jerk - 2 accel) / (2 jerk)
        num, den = jerk - 2 * accel, 2 * jerk
        if den < 0:
            num, den = -num, -den
        if num < den * 1 or num > den * T:
            classes.add("vertex_outside")
        elif num <= den * 4:
            classes.add("vertex_in_first_3")
        elif num >= den * (T - 3):
            classes.add("vertex_in_last_3")
        else:
            classes.add("vertex_inside")
    if T <= 3:
        classes.add("T<=3")
    if looped:
        classes.add("loop_validated")
    if in_sequence:
        classes.add("same_profile_other_duration")
    if r1 == -r_end and r1 != 0:
        classes.add("end_rates_opposite_equal")
    interior = peak > max(abs(r1), abs(r_end))
    got = call_sut(ebb_calc.max_rate_t3, T, rate, accel, jerk)
    if isinstance(got, (int, float)) and peak - got > 0:
        classes.add("shortfall_nonzero")
    ctx.record((T, rate, accel, jerk), classes, nontrivial=interior)
    if not isinstance(got, (int, float)):
        ctx.fail("max_rate_t3 returned %r" % (got,), whole)
    args = (T, rate, accel, jerk)
    if got > peak:
        ctx.fail("max_rate_t3%r = %r exceeds the largest per-tick |rate| %d" % (args, got, peak), whole)
    if got < abs(r1):
        ctx.fail("max_rate_t3%r = %r is below |rate at tick 1| = %d" % (args, got, abs(r1)), whole)
    if got < abs(r_end):
        ctx.fail("max_rate_t3%r = %r is below |rate at tick T| = %d" % (args, got, abs(r_end)), whole)
    if peak - got > abs(jerk):
        ctx.fail("max_rate_t3%r = %r falls short of the true peak %d by more than |jerk| = %d"
                 % (args, got, peak, abs(jerk)), whole)
    if ctx.thorough and jerk != 0 and not ctx.replaying:
        try:
            target(float(peak - got) / abs(jerk), label="shortfall/|jerk|")
        except Exception:  # pylint: disable=broad-except
            pass


@st.composite
def cases(draw):
    mv = draw(t3_moves(vertex_weight=0.6, max_log=draw(st.sampled_from([6, 12, 32]))))
    case = {"T": mv["T"], "rate": mv["rate"], "accel": mv["accel"], "jerk": mv["jerk"]}
    T, accel, jerk = case["T"], case["accel"], case["jerk"]
    if T >= 3 and draw(st.integers(0, 7)) == 0:
        # coincidence: the first and the last tick have opposite rates of equal magnitude (r_T = -r_1)
        total = fw.t3_q(accel, jerk, 1) + fw.t3_q(accel, jerk, T)
        if total % 2 == 0:
            r0 = -total // 2
            rate = r0 + fw.tz(accel, 2) - fw.tz(jerk, 6)
            if rates_valid(T, rate, accel, jerk):
                case["rate"] = rate
    if T >= 2 and draw(st.integers(0, 3)) == 0:
        # the same profile asked for other durations in a row (any T' <= T is valid when T is)
        others = draw(st.lists(st.one_of(st.integers(1, T), st.integers(1, min(T, 8)),
                                         st.integers(max(1, T - 4), T)), min_size=1, max_size=3))
        case["also_T"] = others
        case["also_first"] = draw(st.booleans())
    if draw(st.integers(0, 5)) == 0:
        case["t0"] = True
    return case


def small_grid():
    """Every small move: T 1..12, jerk -4..4, accel -12..12, r1 in -6..6 (vertex at every offset)."""
    for T in range(1, 13):
        for jerk in range(-4, 5):
            for accel in range(-12, 13):
                for r1 in (-6, -1, 0, 1, 5):
                    rate = r1 - accel + fw.tz(accel, 2) - fw.tz(jerk, 6)
                    yield {"T": T, "rate": rate, "accel": accel, "jerk": jerk}


def run(ctx):
    ctx.exhaustive("small-grid", small_grid(), body,
                   "T in 1..12 x jerk in -4..4 x accel in -12..12 x first-tick rate in {-6,-1,0,1,5}")
    ctx.given("generated", cases(), body, quick=12000, thorough=800000)


def replay(ctx, part, case):
    body(ctx, case)
