"""C05 — EBB3 command/query framing and fault handling."""
import itertools

from hypothesis import strategies as st

from pbt import sut
from pbt.sut import PropertyFailure
from pbt.fakes.port import FakePort, SERIAL_FAMILY, ALL_EXC
from pbt.fakes.board import Board, EchoBoard
from pbt import ebb3_methods as em

ID = "C05"
RULE = ("(1) framing: request strings of the three documented shapes with surrounding whitespace x reply "
        "streams (0..30 empty reads, then bare echo / name,data / name+data / '!.. Err:' line / name-prefixed "
        "line containing Err: / other-name line / silence, or an exception at the write or at any read), "
        "compared with an independent reference of the stated framing rule; exhaustive over shape x reply kind "
        "x 0..27 empties. (2) every public request method x every I/O operation of that call x every "
        "applicable fault kind: no exception escapes, the documented failure value is returned, err is "
        "recorded. (3) sequences of requests against a conforming token-issuing device with <= 25 empty reads "
        "before each reply: every reply is attributed to its own request and nothing is left unread. "
        "Non-trivial: a case with a fault or with >= 1 empty read before the reply.")
ASSUMPTIONS = [
    "replies are ASCII text lines; request names are upper-case letters (second character may be a digit)",
    "command('R'|'RB'|'BL') under an I/O exception: only 'does not raise' is asserted (documented as deliberate)",
    "reboot()/bootload(): only the SerialException family is injected; returning False without recording err "
    "is accepted (False is their failure value)",
    "query_statusbyte reads once by design: it is held to one write of QG, no exception, and failure => err "
    "recorded and None returned - not to the 25-retry clause",
]
REQUIRED_CLASSES = ["nontrivial", "empties=25", "empties=26", "exception_at_write", "exception_at_read",
                    "errline", "nameerr", "wrongname", "silent", "one_letter", "one_letter_args", "two_letter",
                    "method_fault", "attribution_sequence", "success", "failure"]
QUICK_SHARDS = 4

LETTERS = "ABCDEFGHIJKLMNOPQRSTUVWXYZ"
ERROR_TEXTS = ["injected", "TX Buffer overrun", "RX Buffer overrun", "Missing parameter(s)", "Unknown command 'ZZ:5A5A'",
               "Parameter outside allowed range", "Need comma next, found: 'x'", "buffer overrun", "12,ab", "100%", ""]


# ------------------------------------------------------------------ (1) framing reference
def ref_name(request):
    s = request.strip()
    if len(s) == 1 or s[1] == ",":
        return s[0]
    return s[:2]


def reply_line(kind, name, data):
    if kind == "echo":
        return name + "\r\n"
    if kind == "data":
        return "%s,%s\r\n" % (name, data)
    if kind == "nocomma":
        return "%s%s\n" % (name, data)
    if kind == "errline":
        return "!8 Err: %s\r\n" % data
    if kind == "nameerr":
        return "%s,Err: %s\r\n" % (name, data)
    if kind == "wrongname":
        return data + "\r\n"
    return None


def framing_body(ctx, case):
    method, request, empties, kind, data, exc = (case["method"], case["request"], case["empties"],
                                                 case["reply"], case["data"], case.get("exc"))
    name = ref_name(request)
    trimmed = request.strip()
    line = reply_line(kind, name, data)
    obj = em.ebb3_motion.EBBMotionWrap()
    port = FakePort()
    if case.get("port_timeout", 1.0) != 1.0:
        port.timeout = case["port_timeout"]         # the count of empty reads is fixed, whatever each read's timeout
    obj.port = port

    class Dev:
        def respond(self, _data):
            if line is None:
                return []
            return [b""] * empties + [line.encode("ascii")]
    port.board = Dev()
    faults = {}
    if exc is not None:
        faults[exc[0]] = ("raise", exc[1])
    port.begin_call(faults)

    # ---- expectation, from the statement
    exc_hits = False
    if exc is not None:
        if exc[0] == 0:
            exc_hits = True
        else:
            # read number exc[0] (1-based among reads) happens iff the previous reads were all empty
            reads_needed = (empties + 1) if line is not None else 26
            exc_hits = exc[0] <= min(reads_needed, 26)
    content_ok = line is not None and line.strip().startswith(name) and "Err:" not in line.strip()
    # "waits through up to 25 empty reads" promises the wait for 25; a reply that comes later than that may find the
    # request still waiting (a more patient implementation) or already given up - both are within the statement
    late = line is not None and empties > 25 and not exc_hits
    if exc_hits:
        ok = False
    elif line is None or empties > 25:
        ok = False
    else:
        ok = content_ok
    classes = {"method_" + method, "reply_" + kind}
    shape = ("one_letter" if len(trimmed) == 1 else "one_letter_args" if trimmed[1] == "," else "two_letter")
    classes.add(shape)
    if empties in (24, 25, 26):
        classes.add("empties=%d" % empties)
    if exc_hits:
        classes.add("exception_at_write" if exc[0] == 0 else "exception_at_read")
    if kind in ("errline", "nameerr", "wrongname"):
        classes.add(kind)
    if line is None:
        classes.add("silent")
    classes.add("success" if ok else "failure")
    ctx.record(case, classes, nontrivial=(not ok) or empties >= 1)

    try:
        result = getattr(obj, method)(request)
    except Exception as e:  # pylint: disable=broad-except
        ctx.fail("%s(%r) raised %s: %s (reply stream: %d empties then %r, fault %r)"
                 % (method, request, type(e).__name__, e, empties, line, exc), case)
    what = "%s(%r) with %d empties then %r, fault %r" % (method, request, empties, line, exc)
    # one transmission, exactly the trimmed text + CR
    if port.write_attempts != 1:
        ctx.fail("%s: write attempted %d times" % (what, port.write_attempts), case)
    if not (exc_hits and exc[0] == 0):
        if port.writes != [(trimmed + "\r").encode("ascii")]:
            ctx.fail("%s: wrote %r, expected %r" % (what, port.writes, trimmed + "\r"), case)
    lenient = exc_hits and name.lower() in ("r", "rb", "bl")
    if lenient:
        return
    if late and port.reads == empties + 1 and not (exc is not None and 26 < exc[0] <= empties + 1):
        ok = content_ok                              # it was still waiting when the reply came
        ctx.count("late_reply_still_awaited")
    if ok:
        if obj.err is not None:
            ctx.fail("%s: a correct reply was treated as an error: %r" % (what, obj.err), case)
        if method == "command":
            if result is not True:
                ctx.fail("%s returned %r, expected True" % (what, result), case)
        else:
            body = line.strip()[len(name):]
            if body.startswith(","):
                body = body[1:]
            if result != body:
                ctx.fail("%s returned %r, expected %r" % (what, result, body), case)
        if port.reads != empties + 1:
            ctx.fail("%s: %d reads, expected %d" % (what, port.reads, empties + 1), case)
    else:
        expected = False if method == "command" else None
        if result is not expected:
            ctx.fail("%s returned %r, expected failure value %r" % (what, result, expected), case)
        if obj.err is None:
            ctx.fail("%s: failure not recorded in err" % what, case)
        if not exc_hits and (line is None or empties > 25):
            most = 1000 if line is None else max(26, empties + 1)
            if not 26 <= port.reads <= most:
                ctx.fail("%s: %d reads before giving up; the request must wait through 25 empty reads (26 reads) "
                         "and must give up eventually (at most %d reads here)" % (what, port.reads, most), case)


NAME1 = st.sampled_from(list("QVRSAXT"))
NAME2 = st.one_of(st.sampled_from(["QL", "QS", "SM", "EM", "SP", "T3", "L3", "QG", "RB", "BL", "ST", "XM", "HM"]),
                  st.tuples(st.sampled_from(LETTERS), st.sampled_from(LETTERS + "0123456789")).map("".join))
# argument text is free text for some commands (ST,<nickname>): characters that mean something to string formatting,
# regular expressions or shells must travel through unharmed
ARGTEXT = st.one_of(
    st.text(alphabet="0123456789,-ABab. ", min_size=1, max_size=12),
    st.text(alphabet="0123456789,-ABab. %{}$\\()[]*?+|^&#@!~'\"", min_size=1, max_size=12),
    st.sampled_from(["100%", "50% ink", "%s", "%d", "%(x)s", "{0}", "{}", "a%", "%%", "$HOME", "\\n", "a{b", "x}"]),
).map(lambda s: s.strip(" ,") or "0")
WS = st.sampled_from(["", "", " ", "  ", "\t", "\r", "\r\n", " \r"])
DATA = st.one_of(st.text(alphabet="0123456789,ABCDEFabcxyz-_.:", min_size=0, max_size=14),
                st.text(alphabet="0123456789,ABab%{}$()[]*+", min_size=0, max_size=10),
                st.sampled_from(["100%", "%s", "{0}", "%d,%d"])).map(lambda s: s.strip())


@st.composite
def framing_cases(draw):
    shape = draw(st.sampled_from(["X", "X,a", "XY", "XY,a", "XY,a"]))
    if shape == "X":
        core = draw(NAME1)
    elif shape == "X,a":
        core = draw(NAME1) + "," + draw(ARGTEXT)
    elif shape == "XY":
        core = draw(NAME2)
    else:
        core = draw(NAME2) + "," + draw(ARGTEXT)
    request = draw(WS) + core + draw(WS)
    empties = draw(st.one_of(st.sampled_from([0, 0, 1, 24, 25, 26, 27, 30]), st.integers(0, 30)))
    kind = draw(st.sampled_from(["echo", "data", "data", "nocomma", "errline", "nameerr", "wrongname",
                                 "silent"]))
    data = draw(DATA)
    if kind == "wrongname":
        data = draw(st.sampled_from(["ZZ,37", "OK", "0", "!", "zz", ref_name(request).lower() + ",1",
                                     ref_name(request)[0] + "#", "X" + ref_name(request)]))
    if kind == "nocomma" and data.startswith(","):
        data = "7" + data
    exc = None
    if draw(st.integers(0, 3)) == 0:
        where = draw(st.one_of(st.just(0), st.integers(1, 27), st.just(min(empties + 1, 26))))
        exc = [where, draw(st.sampled_from(ALL_EXC))]
    case = {"method": draw(st.sampled_from(["command", "query"])), "request": request,
            "empties": empties, "reply": kind, "data": data, "exc": exc}
    if draw(st.integers(0, 4)) == 0:
        case["port_timeout"] = draw(st.sampled_from([0.5, 2.0, 0.25, 5.0, 0.04, None, 0]))
    if kind == "errline":
        case["data"] = draw(st.sampled_from(ERROR_TEXTS))
    return case


def framing_grid():
    shapes = ["V", "Q,5", "QL", "QL,3", "T3,1,0", " QS ", "SM,10,0,0\r", "ST,100% ink", "ST,%s{0}"]
    kinds = ["echo", "data", "nocomma", "errline", "nameerr", "wrongname", "silent"]
    for method, req, kind, e in itertools.product(["command", "query"], shapes, kinds, range(0, 28)):
        data = "ZZ,37" if kind == "wrongname" else "12,ab"
        yield {"method": method, "request": req, "empties": e, "reply": kind, "data": data, "exc": None}
    for method, req, e, timeout in itertools.product(["command", "query"], ["QL,3", "V"], [12, 13, 24, 25, 26, 27],
                                                     [0.5, 2.0, None]):
        yield {"method": method, "request": req, "empties": e, "reply": "data", "data": "1", "exc": None,
               "port_timeout": timeout}
    for method, req, where, excname in itertools.product(["command", "query"], ["QL,3", "V", "RB", "R", "BL"],
                                                         [0, 1, 2, 26], ALL_EXC):
        yield {"method": method, "request": req, "empties": 5, "reply": "data", "data": "1",
               "exc": [where, excname]}


# ------------------------------------------------------------------ (2) method x fault position x kind
def dry_run(name, args):
    obj, port, board = em.new_connected()
    port.begin_call()
    result = getattr(obj, name)(*args)
    ops = [entry[0] for entry in port.log[port.log_mark:]]
    if obj.err is not None:
        raise PropertyFailure("%s%r on a conforming board recorded an error: %r" % (name, tuple(args), obj.err))
    return result, ops


def method_fault_body(ctx, case):
    name, args, idx, fault = case["method"], case["args"], case["op"], case["fault"]
    fail_value = em.METHODS[name][2]
    clean_result, ops = dry_run(name, args)
    if idx >= len(ops):
        ctx.record(case, {"fault_beyond_last_op"}, False)
        return
    op_kind = ops[idx]                       # "w" or "r"
    kind = fault[0]
    reads_after = "r" in ops[idx:] if op_kind == "w" else True
    applicable = (kind == "raise") or (kind == "delay" and op_kind == "r") or \
                 (kind == "silence" and reads_after) or (kind in ("errline", "wrongname", "nameerr", "garbage")
                                                         and op_kind == "r")
    if not applicable:
        ctx.record(case, {"fault_not_applicable"}, False)
        return
    obj, port, board = em.new_connected()
    action = {"delay": ("empty", fault[1] if len(fault) > 1 else 1),
              "nameerr": ("nameerr", b"QX,Err: injected\r\n")}.get(kind, tuple(fault))
    if kind == "nameerr":
        # an error text that starts with the name of the request this read belongs to
        writes_before = [w for w in _writes_of(name, args)][: ops[:idx].count("w")]
        last = writes_before[-1].decode("ascii").strip() if writes_before else "QX"
        action = ("nameerr", (ref_name(last) + ",Err: injected\r\n").encode("ascii"))
    port.begin_call({idx: action})
    ctx.record(case, {"method_fault", "fault_" + kind, "op_" + op_kind}, True)
    what = "%s%r with fault %r at I/O operation %d (%s)" % (name, tuple(args), fault, idx,
                                                            "write" if op_kind == "w" else "read")
    try:
        result = getattr(obj, name)(*args)
    except Exception as e:  # pylint: disable=broad-except
        ctx.fail("%s raised %s: %s" % (what, type(e).__name__, e), case)
    if kind == "delay":
        if name == "query_statusbyte":
            return                               # reads once by design (see ASSUMPTIONS)
        if obj.err is not None or result != clean_result:
            ctx.fail("%s: %d empty reads before the reply changed the outcome: returned %r (clean run %r), "
                     "err=%r" % (what, action[1], result, clean_result, obj.err), case)
        if port.rx:
            ctx.fail("%s: %d line(s) left unread" % (what, len(port.rx)), case)
        return
    if name in ("reboot", "bootload"):
        if result is not False and kind == "raise":
            ctx.fail("%s returned %r, expected False" % (what, result), case)
        return
    if kind == "raise" and name == "command" and ref_name(args[0]).lower() in ("r", "rb", "bl"):
        return
    if not em.same_value(result, fail_value):
        ctx.fail("%s returned %r, documented failure value is %r" % (what, result, fail_value), case)
    if obj.err is None:
        ctx.fail("%s: failure not recorded in err" % what, case)


_WRITES_CACHE = {}


def _writes_of(name, args):
    key = (name, repr(args))
    if key not in _WRITES_CACHE:
        obj, port, board = em.new_connected()
        port.begin_call()
        getattr(obj, name)(*args)
        _WRITES_CACHE[key] = list(port.written_in_call())
    return _WRITES_CACHE[key]


def fault_kinds_for(name):
    excs = SERIAL_FAMILY if name in ("reboot", "bootload") else ALL_EXC
    kinds = [["silence"], ["errline"], ["wrongname"], ["nameerr"], ["delay", 1], ["delay", 25]]
    kinds += [["raise", e] for e in excs]
    return kinds


def method_fault_grid():
    for name in sorted(em.METHODS):
        args = list(em.METHODS[name][1])
        _res, ops = dry_run(name, args)
        for idx in range(len(ops)):
            for fault in fault_kinds_for(name):
                yield {"method": name, "args": args, "op": idx, "fault": fault}


@st.composite
def method_fault_cases(draw):
    name = draw(st.sampled_from(sorted(em.METHODS)))
    args = list(draw(em.METHODS[name][0]))
    if name == "write_nickname":
        args = [args[0].replace("Err:", "err")]
    try:
        n_ops = len(dry_run(name, args)[1])
    except Exception:  # pylint: disable=broad-except
        n_ops = 12                              # the body will report what is wrong
    idx = draw(st.integers(0, max(n_ops - 1, 0)))
    fault = draw(st.sampled_from(fault_kinds_for(name)))
    if fault[0] == "delay":
        fault = ["delay", draw(st.sampled_from([1, 2, 24, 25]))]
    return {"method": name, "args": args, "op": idx, "fault": fault}


# ------------------------------------------------------------------ (3) attribution
def attribution_body(ctx, case):
    """case = list of [kind, text-or-method, args, empties]"""
    obj = em.ebb3_motion.EBBMotionWrap()
    echo = EchoBoard()
    port = FakePort(echo)
    obj.port = port
    tok_board = Board("ebb3", tokens=True, future=True)
    tok_port = FakePort(tok_board)
    obj2 = em.ebb3_motion.EBBMotionWrap()
    obj2.port = tok_port
    delayed = False
    for step in case:
        kind, text, args, empties = step
        delayed = delayed or empties > 0
        if kind in ("command", "query"):
            echo.reply_kind = "ack" if kind == "command" else ("data" if args != "nocomma" else "nocomma")
            echo.empties = [empties]
            port.begin_call()
            try:
                result = getattr(obj, kind)(text)
            except Exception as e:  # pylint: disable=broad-except
                ctx.fail("%s(%r) raised %s: %s" % (kind, text, type(e).__name__, e), case)
            token = echo.issued[-1][1]
            expected = True if kind == "command" else str(token)
            if result != expected or obj.err is not None:
                ctx.fail("%s(%r) after %d empty reads returned %r (err=%r); this request's reply was %r"
                         % (kind, text, empties, result, obj.err, expected), case)
            if port.rx:
                ctx.fail("%s(%r): %d line(s) left unread: %r" % (kind, text, len(port.rx), list(port.rx)),
                         case)
        else:
            tok_board.empties = [empties]
            tok_port.begin_call()
            try:
                result = getattr(obj2, text)(*args)
            except Exception as e:  # pylint: disable=broad-except
                ctx.fail("%s%r raised %s: %s" % (text, tuple(args), type(e).__name__, e), case)
            tok = tok_board.issued[-1][1]
            expected = {"var_read": tok % 256, "query_steps": (tok, -tok),
                        "query_current": (tok % 1000, tok % 1024), "dio_b_read": bool(tok % 2)}[text]
            if result != expected or obj2.err is not None:
                ctx.fail("%s%r after %d empty reads returned %r (err=%r); the reply to this request "
                         "decodes to %r" % (text, tuple(args), empties, result, obj2.err, expected), case)
            if tok_port.rx:
                ctx.fail("%s%r: %d line(s) left unread" % (text, tuple(args), len(tok_port.rx)), case)
    ctx.record(case, {"attribution_sequence"} | ({"attribution_delayed"} if delayed else set()),
               nontrivial=delayed)


# ------------------------------------------------------------------ (4) sessions
SESSION_METHODS = {"var_read": lambda tok: tok % 256, "query_steps": lambda tok: (tok, -tok),
                   "query_current": lambda tok: (tok % 1000, tok % 1024), "dio_b_read": lambda tok: bool(tok % 2)}


def sessions_body(ctx, case):
    """One object used over several connections (connect, requests, disconnect / reboot, connect again - each time a
    new serial object, as pyserial hands out): in every session each request goes out once, to the port of THAT
    session, and gets that session's reply.  case = [[ending, [[method, args, empties], ...]], ...]"""
    obj = em.ebb3_motion.EBBMotionWrap()
    old_ports = []
    for number, (ending, requests) in enumerate(case):
        board = Board("ebb3", tokens=True)
        board.token = 1000 + 5000 * number
        port, ok = em.attach(obj, board)
        if not ok or obj.err is not None or obj.port is not port:
            ctx.fail("session %d: connect() to a conforming board failed (ok=%r, err=%r) after %d earlier "
                     "session(s) on this object" % (number + 1, ok, obj.err, number), case)
        for method, args, empties in requests:
            board.empties = [empties]
            port.begin_call()
            stale = [len(p.writes) for p in old_ports]
            try:
                result = getattr(obj, method)(*args)
            except Exception as e:  # pylint: disable=broad-except
                ctx.fail("session %d: %s%r raised %s: %s" % (number + 1, method, tuple(args), type(e).__name__, e),
                         case)
            if [len(p.writes) for p in old_ports] != stale:
                ctx.fail("session %d: %s%r wrote to the port of an earlier, closed session"
                         % (number + 1, method, tuple(args)), case)
            if len(port.written_in_call()) != 1:
                ctx.fail("session %d: %s%r wrote %r to the open port, expected exactly one request"
                         % (number + 1, method, tuple(args), port.written_in_call()), case)
            expected = SESSION_METHODS[method](board.issued[-1][1])
            if result != expected or obj.err is not None:
                ctx.fail("session %d: %s%r returned %r (err=%r); the reply to this request decodes to %r"
                         % (number + 1, method, tuple(args), result, obj.err, expected), case)
        old_ports.append(port)
        try:
            if ending == "reboot":
                obj.reboot()
            obj.disconnect()
        except Exception as e:  # pylint: disable=broad-except
            ctx.fail("session %d: %s raised %s: %s" % (number + 1, ending, type(e).__name__, e), case)
    ctx.record(case, {"several_sessions_on_one_object"}, nontrivial=len(case) > 1)


@st.composite
def sessions_cases(draw):
    out = []
    for _ in range(draw(st.integers(2, 3))):
        requests = []
        for _ in range(draw(st.integers(0, 3))):
            name = draw(st.sampled_from(sorted(SESSION_METHODS)))
            args = {"var_read": [draw(st.integers(0, 31))], "dio_b_read": [draw(st.integers(0, 7))]}.get(name, [])
            requests.append([name, args, draw(st.sampled_from([0, 0, 1, 25]))])
        out.append([draw(st.sampled_from(["disconnect", "disconnect", "reboot"])), requests])
    return out


EMPTIES = st.one_of(st.sampled_from([0, 0, 1, 2, 24, 25]), st.integers(0, 25))


@st.composite
def attribution_cases(draw):
    steps = []
    for _ in range(draw(st.integers(1, 12))):
        kind = draw(st.sampled_from(["command", "query", "query", "method"]))
        if kind == "command":
            steps.append(["command", draw(WS) + draw(st.sampled_from(em.COMMAND_TEXTS)).strip(), None,
                          draw(EMPTIES)])
        elif kind == "query":
            steps.append(["query", draw(WS) + draw(st.sampled_from(em.QUERY_TEXTS + ["A", "Q,1", "T3,1"])).strip(),
                          draw(st.sampled_from(["data", "data", "nocomma"])), draw(EMPTIES)])
        else:
            name = draw(st.sampled_from(["var_read", "query_steps", "query_current", "dio_b_read"]))
            args = {"var_read": [draw(st.integers(0, 31))], "dio_b_read": [draw(st.integers(0, 7))]}.get(name, [])
            steps.append(["method", name, args, draw(EMPTIES)])
    return steps


def run(ctx):
    ctx.exhaustive("framing-grid", framing_grid(), framing_body,
                   "2 methods x 9 request shapes x 7 reply kinds x 0..27 empties + exception placements")
    ctx.exhaustive("method-fault-grid", method_fault_grid(), method_fault_body,
                   "32 request methods (fixed sample arguments) x every I/O operation x every fault kind")
    ctx.given("framing", framing_cases(), framing_body, quick=4000, thorough=400000)
    ctx.given("method-fault", method_fault_cases(), method_fault_body, quick=1500, thorough=150000)
    ctx.given("attribution", attribution_cases(), attribution_body, quick=600, thorough=60000)
    ctx.given("sessions", sessions_cases(), sessions_body, quick=300, thorough=20000)
    if ctx.thorough and ctx.shard == 0:
        from pbt.fuzz import driver
        driver.run_stage(ctx, "c05_framing")


def replay(ctx, part, case):
    if part == "sessions" or (isinstance(case, list) and case and isinstance(case[0], list)
                              and case[0] and case[0][0] in ("disconnect", "reboot")):
        sessions_body(ctx, case)
    elif isinstance(case, list):
        attribution_body(ctx, case)
    elif "op" in case:
        method_fault_body(ctx, case)
    else:
        framing_body(ctx, case)
