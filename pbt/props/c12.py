"""C12 — length parsing and the four unit tables agree with each other and with SVG units."""
import itertools
from fractions import Fraction as F

from hypothesis import strategies as st

from pbt import sut
from pbt.sut import call_sut

ID = "C12"
RULE = ("Numerals in every float syntax SVG allows (d, d., .d, d.d, optional sign, exponent e/E with +, - or no "
        "sign; magnitudes 1e-200..1e200 and 0) x unit in {none, px, in, mm, cm, pt, pc, Q, %} x surrounding "
        "whitespace; plus malformed strings (unsupported units em ex ch rem vw vh vmin vmax deg rad, bare units, "
        "empty, words, double signs, two dots, unit before the number). Oracle: exact decimal value of the "
        "numeral (rationals) and the SVG unit table at 96 px/in; parse == (value, unit); unitsToUserUnits == "
        "value x factor (rel 1e-12); userUnitToUnits(unitsToUserUnits(s), unit) == value; getLength and "
        "getLengthInches on a real lxml document agree (px = in x 96, % of the supplied reference, None for % "
        "in inches) - a third of the documents carry what real roots carry (inkscape:version 0.48 .. 1.2, sodipodi, "
        "export dpi, 90-dpi viewBoxes, the other size attribute) and the length is read from width or height; "
        "malformed => None everywhere, never an exception. Exhaustive grid: 24 numerals x 10 unit "
        "spellings x 4 paddings. Non-trivial: unit other than none/px, or malformed. Distinct = distinct "
        "(text, reference).")
ASSUMPTIONS = [
    "numerals follow the SVG number grammar; strings Python's float() accepts but SVG does not (inf, nan, 1_000, "
    "full-width digits) are not generated, nor is whitespace between number and unit, nor upper-case unit names",
    "lower-case 'q' is not in the statement's unit list: it is accepted either as Q or as unsupported, but "
    "consistently across all five functions",
    "magnitudes stay within 1e-200..1e200 so that no conversion overflows or goes subnormal",
    "the percentage reference is a finite number; unitsToUserUnits documents a zero reference as 'no reference' and "
    "is not compared for it, the attribute reader getLength takes n% of 0 to be 0",
]
REQUIRED_CLASSES = ["nontrivial", "unit:none", "unit:px", "unit:in", "unit:mm", "unit:cm", "unit:pt", "unit:pc",
                    "unit:Q", "unit:%", "malformed", "unsupported_unit", "exp_plus", "exp_minus", "exp_bare",
                    "leading_dot", "trailing_dot", "signed_plus", "negative", "padded", "zero", "big", "small",
                    "decorated_root", "attr:height"]
QUICK_SHARDS = 4

plot_utils = sut.load("plot_utils")
OPTION_PROBES = [(plot_utils.parseLengthWithUnits, ["string_to_parse"], ["50%"]),
                 (plot_utils.unitsToUserUnits, ["input_string", "percent_ref"], ["50%", 800]),
                 (plot_utils.userUnitToUnits, ["distance_uu", "unit_string"], [96.0, "in"])]


# SVG / CSS absolute units at 96 px per inch, as exact rationals (px per unit)
FACTOR = {
    "": F(1), "px": F(1), "in": F(96), "mm": F(96) / F("25.4"), "cm": F(96) / F("2.54"),
    "pt": F(96, 72), "pc": F(96, 6), "Q": F(96) / F("101.6"),
}
UNITS = ["", "px", "in", "mm", "cm", "pt", "pc", "Q", "%"]
REL = F(1, 10 ** 12)

_doc_cache = {}


class _Alt:
    """What getLength/getLengthInches need: an object with .document.getroot().get(name)."""

    def __init__(self):
        from lxml import etree
        self.document = etree.ElementTree(etree.fromstring(plot_utils.trivial_svg.encode("utf-8")))

    def with_attr(self, name, text):
        self.document.getroot().set(name, text)
        return self


def alt():
    if "alt" not in _doc_cache:
        _doc_cache["alt"] = _Alt()
    return _doc_cache["alt"]


# What else the root of a real drawing carries.  None of it may change what a length attribute means: the
# statement fixes 96 px per inch for every document (a reader that switches to 90 px/in for files "saved by
# Inkscape 0.91" makes pixels and inches disagree).
INK = "http://www.inkscape.org/namespaces/inkscape"
SODI = "http://sodipodi.sourceforge.net/DTD/sodipodi-0.dtd"
XML = "http://www.w3.org/XML/1998/namespace"
DECOR = [
    ("{%s}version" % INK, "0.48.5 r10040"), ("{%s}version" % INK, "0.91 r13725"),
    ("{%s}version" % INK, "0.92.4 (5da689c313, 2019-01-14)"), ("{%s}version" % INK, "1.2.2 (b0a8486541, 2022-12-01)"),
    ("{%s}version" % SODI, "0.32"), ("{%s}docname" % SODI, "drawing 90dpi.svg"),
    ("{%s}export-xdpi" % INK, "90"), ("{%s}export-ydpi" % INK, "72"),
    ("viewBox", "0 0 744.09448 1052.3622"), ("viewBox", "0 0 8.5 11"), ("viewBox", "0 0 612 792"),
    ("version", "1.0"), ("version", "1.2"), ("baseProfile", "tiny"),
    ("{%s}space" % XML, "preserve"), ("enable-background", "new 0 0 612 792"),
    ("x", "0px"), ("y", "0px"), ("style", "width:90px;height:72pt"), ("preserveAspectRatio", "xMidYMid slice"),
    ("data-dpi", "72"), ("data-units", "mm"), ("id", "Layer_1"), ("class", "px90"),
]
OTHER_SIZE = ["8.5in", "11in", "90", "72pt", "100%", "297mm", "", "auto", "744.09448", "2e2px"]


def document_for(case):
    """The <svg> root for this case: the library's own minimal drawing plus the case's other root attributes."""
    decor = case.get("decor") or []
    attr = case.get("attr", "width")
    if not decor and attr == "width":
        return alt(), attr
    doc = _Alt()
    root = doc.document.getroot()
    for name, value in decor:
        root.set(name, value)
    return doc, attr


def close(got, want):
    """got (a float) equals the exact rational `want` to 1e-12 relative."""
    if isinstance(got, bool) or not isinstance(got, (int, float)):
        return False
    if got != got or got in (float("inf"), float("-inf")):
        return False
    return abs(F(got) - want) <= REL * abs(want)


def body(ctx, case):
    text, ref = case["text"], case["ref"]
    sem = case["sem"]
    classes = set(case.get("tags", []))
    doc, attr = document_for(case)
    alt_obj = doc.with_attr(attr, text)
    if case.get("decor"):
        classes.add("decorated_root")
    if attr != "width":
        classes.add("attr:" + attr)
    parsed = call_sut(plot_utils.parseLengthWithUnits, text)
    uu_default = call_sut(plot_utils.unitsToUserUnits, text)
    uu_ref = call_sut(plot_utils.unitsToUserUnits, text, ref)
    length = call_sut(plot_utils.getLength, alt_obj, attr, ref)
    inches = call_sut(plot_utils.getLengthInches, alt_obj, attr)
    what = "%r" % text

    if sem["kind"] == "malformed":
        classes.add("malformed")
        ctx.record(case, classes, True)
        if parsed != (None, None):
            ctx.fail("parseLengthWithUnits(%s) = %r, expected (None, None) for text %s"
                     % (what, parsed, sem["why"]), case)
        for name, got in (("unitsToUserUnits", uu_default), ("unitsToUserUnits(.., ref)", uu_ref),
                          ("getLength", length), ("getLengthInches", inches)):
            if name == "getLength" and text == "":
                continue        # an empty attribute is "not specified": the documented default applies
            if got is not None:
                ctx.fail("%s(%s) = %r, expected None for text %s" % (name, what, got, sem["why"]), case)
        return

    unit = sem["unit"]
    value = F(sem["num"]) * F(10) ** sem["exp"] if sem["num"] else F(0)
    value_float = float(value)                      # correctly rounded
    if unit == "q":
        # not in the statement's list: Q or unsupported, consistently
        classes.add("unit:q")
        ctx.record(case, classes, True)
        if parsed == (None, None):
            for name, got in (("unitsToUserUnits", uu_default), ("getLength", length),
                              ("getLengthInches", inches)):
                if got is not None:
                    ctx.fail("parseLengthWithUnits(%s) rejects the text but %s returns %r" % (what, name, got),
                             case)
            return
        unit = "Q"
    else:
        classes.add("unit:" + (unit or "none"))
        ctx.record(case, classes, nontrivial=unit not in ("", "px"))

    # 1. parsing yields that value and unit (no unit == px)
    want_unit = {"": "px"}.get(unit, unit)
    if (not isinstance(parsed, tuple) or len(parsed) != 2 or parsed[0] is None
            or isinstance(parsed[0], bool) or not isinstance(parsed[0], (int, float))):
        ctx.fail("parseLengthWithUnits(%s) = %r, expected (%r, %r)" % (what, parsed, value_float, want_unit), case)
    got_unit = {"": "px"}.get(parsed[1], parsed[1])
    if F(parsed[0]) != F(value_float) or got_unit != want_unit:
        ctx.fail("parseLengthWithUnits(%s) = %r, expected (%r, %r)" % (what, parsed, value_float, want_unit), case)

    vexact = F(value_float)
    if unit == "%":
        want_default = vexact / 100
        want_ref = vexact * F(float(ref)) / 100
        want_len = want_ref
        want_in = None
    else:
        want_default = want_ref = want_len = vexact * FACTOR[unit]
        want_in = want_len / 96

    def expect(name, got, want):
        if want == 0:
            ok = got is not None and not isinstance(got, bool) and isinstance(got, (int, float)) and got == 0
        else:
            ok = close(got, want)
        if not ok:
            ctx.fail("%s = %r, the SVG unit table (96 px/in) gives %.15g" % (name, got, float(want)), case)

    # 2. conversion to user units
    expect("unitsToUserUnits(%s)" % what, uu_default, want_default)
    if ref != 0 or unit != "%":
        expect("unitsToUserUnits(%s, %r)" % (what, ref), uu_ref, want_ref)
    if ref == 0:
        classes.add("zero_reference")
        ctx.classes["zero_reference"] += 1
    # 3. converting back returns the original value
    back = call_sut(plot_utils.userUnitToUnits, uu_default, parsed[1])
    expect("userUnitToUnits(unitsToUserUnits(%s) = %r, %r)" % (what, uu_default, parsed[1]), back, vexact)
    if unit == "":
        back2 = call_sut(plot_utils.userUnitToUnits, uu_default, "")
        expect("userUnitToUnits(%r, '')" % uu_default, back2, vexact)
    # 4. document-attribute readers agree
    root_text = "<svg %s=%s%s>" % (attr, what, "".join(" %s=%r" % (n.split("}")[-1], v) for n, v in case.get("decor") or []))
    expect("getLength(%s, %r, %r)" % (root_text, attr, ref), length, want_len)
    if want_in is None:
        if inches is not None:
            ctx.fail("getLengthInches(%s, %r) = %r, expected None for a percentage" % (root_text, attr, inches), case)
    else:
        expect("getLengthInches(%s, %r)" % (root_text, attr), inches, want_in)


# ------------------------------------------------------------------ generators
PADS = ["", "", "", " ", "  ", "\t", "\n", " \t", "\r\n"]


@st.composite
def numerals(draw):
    """(text, digits-as-int, exponent, tags) with value = digits * 10**exponent exactly."""
    tags = set()
    form = draw(st.sampled_from(["d", "d", "d.d", "d.d", "d.", ".d"]))
    int_digits = draw(st.text("0123456789", min_size=1, max_size=draw(st.sampled_from([1, 3, 3, 9, 17]))))
    frac_digits = draw(st.text("0123456789", min_size=1, max_size=draw(st.sampled_from([1, 3, 6, 12]))))
    if draw(st.integers(0, 11)) == 0:
        int_digits = "0" * len(int_digits)
        frac_digits = "0" * len(frac_digits)
    if form == "d":
        body_text, digits, shift = int_digits, int_digits, 0
    elif form == "d.":
        body_text, digits, shift = int_digits + ".", int_digits, 0
        tags.add("trailing_dot")
    elif form == ".d":
        body_text, digits, shift = "." + frac_digits, frac_digits, -len(frac_digits)
        tags.add("leading_dot")
    else:
        body_text, digits, shift = int_digits + "." + frac_digits, int_digits + frac_digits, -len(frac_digits)
    num = int(digits)
    sign = draw(st.sampled_from(["", "", "", "-", "-", "+"]))
    if sign == "+":
        tags.add("signed_plus")
    if sign == "-":
        tags.add("negative")
        num = -num
    exp = 0
    exp_text = ""
    if draw(st.integers(0, 2)) == 0:
        e_char = draw(st.sampled_from("eE"))
        # keep the magnitude inside 1e-200 .. 1e200
        mag = len(digits.lstrip("0")) + shift if num else 0
        lo, hi = -190 - mag, 190 - mag
        exp = draw(st.one_of(st.integers(-12, 12), st.integers(lo, hi)))
        exp = max(lo, min(hi, exp))
        e_sign = draw(st.sampled_from(["", "+", "-"]))
        if e_sign == "-":
            exp = -abs(exp)
            tags.add("exp_minus")
        elif e_sign == "+":
            exp = abs(exp)
            tags.add("exp_plus")
        else:
            exp = abs(exp)
            tags.add("exp_bare")
        digits_text = str(abs(exp))
        if draw(st.integers(0, 5)) == 0:
            digits_text = "0" + digits_text
        exp_text = e_char + e_sign + digits_text
    text = sign + body_text + exp_text
    if num == 0:
        tags.add("zero")
    else:
        magnitude = abs(F(num) * F(10) ** (exp + shift))
        if magnitude >= 10 ** 9:
            tags.add("big")
        if magnitude <= F(1, 10 ** 6):
            tags.add("small")
    return text, num, exp + shift, tags


UNSUPPORTED = ["em", "ex", "ch", "rem", "vw", "vh", "vmin", "vmax", "deg", "rad", "ft", "m", "pixels", "inch",
               "px2", "mmm"]
NONNUMERIC = ["", " ", "px", "mm", "in", "%", "Q", "e5", "e5mm", "--1", "++2mm", "+-3", "1..2", "1.2.3in",
              ".", ".px", "-", "-pt", "+", "abc", "auto", "none", "ten mm", "mm5", "px10", "%50", "1e", "1e+",
              "1e-px", "1,5mm", "#12", "1/2in", "0x10", "5**2", "(5)",
              # characters str.isdigit()/isnumeric() accept but that are not decimal digits (float() rejects them)
              "\u00b2", "10\u00b2", "\u2460", "\u00bd", "5\u00bdmm", "\u2075px", "1\u2070in", "\u2082", "\u2163",
              "3\u00b3cm", "\u3007", "\u2152"]


@st.composite
def references(draw):
    kind = draw(st.integers(0, 5))
    if kind == 0:
        return draw(st.sampled_from([100, 96, 1, 816, 1056, 793.7007874, 1122.519685]))
    if kind == 1:
        return draw(st.integers(1, 100000))
    if kind == 2:
        # a reference of zero (a collapsed page): the attribute reader takes its percentages of it like of any other
        # number; unitsToUserUnits documents zero as "no reference given" and is not compared there
        return draw(st.sampled_from([0, 0.0, -1, -100])) if draw(st.booleans()) else -draw(st.integers(1, 1000))
    val = draw(st.integers(1, 10 ** 9)) * 10.0 ** draw(st.integers(-9, 3))
    return val


@st.composite
def cases(draw):
    kind = draw(st.integers(0, 9))
    pad_l, pad_r = draw(st.sampled_from(PADS)), draw(st.sampled_from(PADS))
    ref = draw(references())
    tags = set()
    if pad_l or pad_r:
        tags.add("padded")
    if kind == 0:
        text = draw(st.sampled_from(NONNUMERIC))
        return {"text": pad_l + text + pad_r if text.strip() else text, "ref": ref,
                "sem": {"kind": "malformed", "why": "without a numeric part"}, "tags": sorted(tags)}
    num_text, num, exp, ntags = draw(numerals())
    tags |= ntags
    if kind == 1:
        unit = draw(st.sampled_from(UNSUPPORTED))
        tags.add("unsupported_unit")
        return {"text": pad_l + num_text + unit + pad_r, "ref": ref,
                "sem": {"kind": "malformed", "why": "with unsupported unit %r" % unit}, "tags": sorted(tags)}
    unit = draw(st.sampled_from(UNITS + UNITS + ["q"]))
    case = {"text": pad_l + num_text + unit + pad_r, "ref": ref,
            "sem": {"kind": "length", "num": num, "exp": exp, "unit": unit}, "tags": sorted(tags)}
    if draw(st.integers(0, 2)) == 0:
        # a real drawing's root: other attributes, and the length read may be the height
        case["attr"] = draw(st.sampled_from(["width", "height"]))
        decor = draw(st.lists(st.sampled_from(DECOR), min_size=1, max_size=4, unique_by=lambda d: d[0]))
        other = {"width": "height", "height": "width"}[case["attr"]]
        decor.append((other, draw(st.sampled_from(OTHER_SIZE))))
        case["decor"] = [list(d) for d in decor]
    return case


GRID_NUMERALS = [("0", 0, 0), ("1", 1, 0), ("-1", -1, 0), ("+1", 1, 0), ("0.5", 5, -1), (".5", 5, -1), ("5.", 5, 0),
                 ("25.4", 254, -1), ("2.54", 254, -2), ("101.6", 1016, -1), ("72", 72, 0), ("6", 6, 0),
                 ("96", 96, 0), ("40", 40, 0), ("100", 100, 0), ("1e2", 1, 2), ("1E2", 1, 2), ("1e+2", 1, 2),
                 ("1e-2", 1, -2), ("1.5e+20", 15, 19), ("-2.5E-3", -25, -4), ("1e-05", 1, -5),
                 ("0.000001", 1, -6), ("123456789.125", 123456789125, -3)]


def grid():
    for (text, num, exp), unit, (pl, pr) in itertools.product(
            GRID_NUMERALS, UNITS + ["q"], [("", ""), (" ", ""), ("", " "), ("\t", "\n")]):
        tags = {"padded"} if (pl or pr) else set()
        yield {"text": pl + text + unit + pr, "ref": 200,
               "sem": {"kind": "length", "num": num, "exp": exp, "unit": unit}, "tags": sorted(tags)}
    for text in NONNUMERIC:
        yield {"text": text, "ref": 200, "sem": {"kind": "malformed", "why": "without a numeric part"}, "tags": []}
    for (text, _, _), unit in itertools.product(GRID_NUMERALS, UNSUPPORTED):
        yield {"text": text + unit, "ref": 200,
               "sem": {"kind": "malformed", "why": "with unsupported unit %r" % unit},
               "tags": ["unsupported_unit"]}


def none_input(ctx, _case):
    """A missing attribute value (None) parses to (None, None) and converts to None."""
    ctx.record({"text": None}, {"none_input"}, False)
    if call_sut(plot_utils.parseLengthWithUnits, None) != (None, None):
        ctx.fail("parseLengthWithUnits(None) is not (None, None)", {"text": None})
    if call_sut(plot_utils.unitsToUserUnits, None) is not None:
        ctx.fail("unitsToUserUnits(None) is not None", {"text": None})
    if call_sut(plot_utils.userUnitToUnits, None, "mm") is not None:
        ctx.fail("userUnitToUnits(None, 'mm') is not None", {"text": None})


def constant(ctx, _case):
    ctx.record({"PX_PER_INCH": True}, {"constant"}, False)
    if plot_utils.PX_PER_INCH != 96:
        ctx.fail("PX_PER_INCH = %r, the statement fixes 96 px per inch" % plot_utils.PX_PER_INCH,
                 {"PX_PER_INCH": True})


def run(ctx):
    ctx.exhaustive("constant", [None], constant, "px-per-inch constant")
    ctx.exhaustive("none_input", [None], none_input, "None input")
    ctx.exhaustive("grid", grid(), body, "24 numerals x 10 unit spellings x 4 paddings + malformed tables")
    ctx.given("generated", cases(), body, quick=12000, thorough=1600000)
    if ctx.thorough and ctx.shard == 0:
        from pbt.fuzz import driver
        driver.run_stage(ctx, "c12_lengths")


def replay(ctx, part, case):
    if part == "constant":
        constant(ctx, case)
    elif part == "none_input":
        none_input(ctx, case)
    else:
        body(ctx, case)
