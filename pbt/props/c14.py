"""C14 — R-tree intersection query equals brute force, and construction terminates."""
import itertools
import math

from hypothesis import strategies as st

from pbt import sut
from pbt.sut import call_sut, BudgetExceeded, PropertyFailure

ID = "C14"
RULE = ("0..80 identified boxes (up to 300 in the geometrically nested layouts that make the tree dozens of levels deep): 70% on an integer lattice (radius 2..30) with width/height from {0, 0, 1, 2, 5, "
        "full} so that zero-extent boxes and boxes on the mean-centre split lines are common; structured layouts "
        "(evenly spaced hatch lines, plus signs of crossing strokes, edge-sharing tile grids, nested boxes, "
        "mirror-symmetric sets, duplicates under different ids); 30% continuous floats. 8 queries per index: points, "
        "degenerate segments, boxes touching an edge or a corner of an indexed box exactly, the box itself, the "
        "outer edge of the whole extent, enclosing-all, disjoint, random. Oracle: brute-force closed-interval "
        "overlap; the returned id set must be equal. Construction runs under a deterministic executed-line budget "
        "(and RecursionError is a failure). Exhaustive: every multiset of <= 3 boxes from a 3x3 lattice box "
        "alphabet x every lattice query. Non-trivial: >= 2 boxes and a non-empty expected result. Distinct = "
        "(boxes, query).")
ASSUMPTIONS = [
    "boxes and queries are finite with min <= max on both axes; ids are distinct hashable values",
    "termination is observed up to 80 boxes (300 for geometric nesting) under a line budget of 100x the largest construction seen on the "
    "unchanged tree",
]
REQUIRED_CLASSES = ["nontrivial", "degenerate_box", "box_on_split_line", "touching_only_hit", "empty_index",
                    "single_box", "hatch", "plus", "tiles", "nested", "mirror", "dups", "continuous",
                    "point_query", "segment_query", "enclosing_query", "disjoint_query", "outer_edge_query",
                    "empty_expected", "geometric", "huge_coordinates", "unusual_ids", "geometric_row"]
QUICK_SHARDS = 4
LINE_BUDGET = 3_000_000

rtree = sut.load("rtree")
_PROBE_BOXES = [(0, (0.0, 0.0, 100.0, 0.0)), (1, (10.0, 30.0, 20.0, 40.0)), (2, (80.0, 2.0, 90.0, 8.0))]
OPTION_PROBES = [(rtree.Index, ["bboxes"], [_PROBE_BOXES]),
                 (rtree.Index.intersection, ["self", "bbox"], lambda: [rtree.Index(list(_PROBE_BOXES)), (82.0, 3.0, 85.0, 5.0)])]



def overlaps(box, q):
    return not (q[0] > box[2] or q[1] > box[3] or q[2] < box[0] or q[3] < box[1])


def strictly_overlaps(box, q):
    return q[0] < box[2] and q[1] < box[3] and q[2] > box[0] and q[3] > box[1]


def tree_stats(index, depth=0):
    nodes, deepest = 1, depth
    for sub in getattr(index, "subtrees", []) or []:
        n, d = tree_stats(sub, depth + 1)
        nodes += n
        deepest = max(deepest, d)
    return nodes, deepest


def body(ctx, case, report=None, budget=None):
    # report: what to put into a failure instead of the full box list (large generated sheets are described by
    # their recipe); budget: line budget for this case
    budget = budget or LINE_BUDGET
    boxes = [(i, tuple(b)) for i, b in case["boxes"]]
    queries = [tuple(q) for q in case["queries"]]
    classes = set(case.get("tags", []))
    n = len(boxes)
    if n == 0:
        classes.add("empty_index")
    if n == 1:
        classes.add("single_box")
    if any(b[0] == b[2] or b[1] == b[3] for _, b in boxes):
        classes.add("degenerate_box")
    if n >= 2:
        cx = sum((b[0] / 2 + b[2] / 2) / n for _, b in boxes)
        cy = sum((b[1] / 2 + b[3] / 2) / n for _, b in boxes)
        if any(b[0] == cx or b[2] == cx or b[1] == cy or b[3] == cy for _, b in boxes):
            classes.add("box_on_split_line")
    what = "rtree.Index(%r)" % (boxes,) if report is None else "rtree.Index(<sheet %r>)" % (report["sheet"],)
    try:
        index, lines = sut.call_budget(rtree.Index, (list(boxes),), line_budget=budget)
    except BudgetExceeded:
        ctx.record(case, classes, False)
        ctx.fail("%s did not finish within %d executed lines (construction must terminate)"
                 % (what, budget), report or case, expensive=True)
    except RecursionError:
        ctx.record(case, classes, False)
        ctx.fail("%s raised RecursionError (construction must terminate)" % what, report or case)
    except PropertyFailure:
        raise
    except Exception as exc:  # pylint: disable=broad-except
        ctx.record(case, classes, False)
        ctx.fail("%s raised %s: %s" % (what, type(exc).__name__, exc), report or case)
    ctx.notes["max_construction_lines"] = max(ctx.notes.get("max_construction_lines", 0), lines)
    try:
        nodes, depth = tree_stats(index)
        if nodes > 1:
            classes.add("tree_split")
        if depth > 32:
            classes.add("deep_tree(>32)")
        ctx.notes["max_nodes"] = max(ctx.notes.get("max_nodes", 0), nodes)
    except Exception:  # pylint: disable=broad-except
        pass                                     # internal layout is not part of the property
    for k, q in enumerate(queries):
        want = {i for i, b in boxes if overlaps(b, q)}
        qclasses = set(classes)
        if q[0] == q[2] and q[1] == q[3]:
            qclasses.add("point_query")
        elif q[0] == q[2] or q[1] == q[3]:
            qclasses.add("segment_query")
        if not want:
            qclasses.add("empty_expected")
        if want and not any(strictly_overlaps(b, q) for i, b in boxes if i in want):
            qclasses.add("touching_only_hit")
        # a failure is reported with every query asked of this index so far (an index may remember earlier queries)
        if report is not None:
            one = dict(report, failing_query=list(q))
            ctx.record({"sheet": report["sheet"], "queries": [list(q)]}, qclasses, nontrivial=bool(want))
        else:
            one = {"boxes": case["boxes"], "queries": [list(x) for x in queries[:k + 1]],
                   "tags": case.get("tags", [])}
            ctx.record({"boxes": case["boxes"], "queries": [list(q)]}, qclasses, nontrivial=n >= 2 and bool(want))
        try:
            got, _ = sut.call_budget(index.intersection, (q,), line_budget=budget)
        except BudgetExceeded:
            ctx.fail("%s.intersection(%r) did not finish within %d executed lines" % (what, q, LINE_BUDGET), one,
                     expensive=True)
        except Exception as exc:  # pylint: disable=broad-except
            ctx.fail("%s.intersection(%r) raised %s: %s" % (what, q, type(exc).__name__, exc), one)
        try:
            got_set = set(got)
        except TypeError:
            ctx.fail("%s.intersection(%r) returned %r, not a collection of ids" % (what, q, got), one)
        if got_set != want:
            ctx.fail("%s.intersection(%r) = %r; brute force gives %r (missed %r, extra %r)"
                     % (what, q, sorted(got_set, key=repr), sorted(want, key=repr),
                        sorted(want - got_set, key=repr), sorted(got_set - want, key=repr)), one)


# ------------------------------------------------------------------ generators
@st.composite
def lattice_box(draw, radius):
    coord = st.integers(-radius, radius)
    x, y = draw(coord), draw(coord)
    w = draw(st.sampled_from([0, 0, 1, 2, 5, 2 * radius]))
    h = draw(st.sampled_from([0, 0, 1, 2, 5, 2 * radius]))
    x2, y2 = min(radius, x + w), min(radius, y + h)
    if w == 2 * radius:
        x, x2 = -radius, radius
    if h == 2 * radius:
        y, y2 = -radius, radius
    return [x, y, x2, y2]


@st.composite
def layouts(draw):
    kind = draw(st.sampled_from(["lattice", "lattice", "lattice", "hatch", "plus", "tiles", "nested", "mirror",
                                 "dups", "continuous", "continuous", "continuous", "tiny", "geometric"]))
    tags = {kind}
    boxes = []
    if kind == "tiny":
        n = draw(st.integers(0, 2))
        boxes = [draw(lattice_box(3)) for _ in range(n)]
    elif kind == "lattice":
        radius = draw(st.sampled_from([2, 3, 5, 10, 30]))
        n = draw(st.one_of(st.integers(0, 12), st.integers(0, 80)))
        boxes = [draw(lattice_box(radius)) for _ in range(n)]
    elif kind == "hatch":
        n = draw(st.integers(2, 25))
        step = draw(st.sampled_from([1, 2, 3]))
        length = draw(st.integers(0, 20))
        vertical = draw(st.booleans())
        x0, y0 = draw(st.integers(-10, 10)), draw(st.integers(-10, 10))
        for k in range(n):
            if vertical:
                boxes.append([x0 + k * step, y0, x0 + k * step, y0 + length])
            else:
                boxes.append([x0, y0 + k * step, x0 + length, y0 + k * step])
        if draw(st.booleans()):
            boxes.append([x0, y0, x0 + (n - 1) * step, y0 + length] if vertical
                         else [x0, y0, x0 + length, y0 + (n - 1) * step])
    elif kind == "plus":
        for _ in range(draw(st.integers(1, 6))):
            cx, cy = draw(st.integers(-10, 10)), draw(st.integers(-10, 10))
            a, b = draw(st.integers(0, 6)), draw(st.integers(0, 6))
            boxes.append([cx - a, cy, cx + a, cy])
            boxes.append([cx, cy - b, cx, cy + b])
    elif kind == "tiles":
        nx, ny = draw(st.integers(1, 6)), draw(st.integers(1, 6))
        w, h = draw(st.integers(1, 4)), draw(st.integers(0, 4))
        x0, y0 = draw(st.integers(-8, 8)), draw(st.integers(-8, 8))
        for ix in range(nx):
            for iy in range(ny):
                boxes.append([x0 + ix * w, y0 + iy * h, x0 + (ix + 1) * w, y0 + (iy + 1) * h])
    elif kind == "nested":
        cx, cy = draw(st.integers(-5, 5)), draw(st.integers(-5, 5))
        for k in range(draw(st.integers(2, 12))):
            boxes.append([cx - k, cy - k, cx + k, cy + k])
        for _ in range(draw(st.integers(0, 4))):
            boxes.append(draw(lattice_box(12)))
    elif kind == "mirror":
        radius = draw(st.sampled_from([3, 6, 12]))
        base = [draw(lattice_box(radius)) for _ in range(draw(st.integers(1, 15)))]
        for b in base:
            boxes.append(b)
            boxes.append([-b[2], b[1], -b[0], b[3]])
            if draw(st.booleans()):
                boxes.append([b[0], -b[3], b[2], -b[1]])
                boxes.append([-b[2], -b[3], -b[0], -b[1]])
    elif kind == "geometric":
        # boxes shrinking geometrically towards a corner or a centre: each split peels off only the largest few,
        # so the tree gets deep (dozens of levels) although the collection is modest
        n = draw(st.sampled_from([40, 100, 200, 300, 300]))
        ratio = draw(st.sampled_from([0.5, 0.5, 0.6, 0.75]))
        anchor = draw(st.sampled_from(["diagonal", "diagonal", "staircase", "row", "row"]))
        if anchor == "row":
            # a row of marks that all straddle one horizontal (or vertical) line, spaced geometrically - the tick
            # marks of a logarithmic axis: every box lies on both sides of the split line of every node
            n = draw(st.sampled_from([24, 40, 60, 80]))
            ratio = draw(st.sampled_from([0.5, 0.6]))
            half = draw(st.sampled_from([0.0, 0.0, 1.0]))
            vertical = draw(st.booleans())
            tags.add("geometric_row")
        size = 1024.0
        for k in range(n):
            nxt = size * ratio
            if anchor == "row":
                box = [size, -half, size + (size - nxt) * draw(st.sampled_from([0.0, 0.25])), half]
                boxes.append([box[1], box[0], box[3], box[2]] if vertical else box)
            elif anchor == "diagonal":
                boxes.append([nxt, nxt, size, size])          # a spiral drawn towards the origin
            else:
                boxes.append([nxt, 0.0, size, nxt])           # steps of a staircase along the x axis
            size = nxt
    elif kind == "dups":
        radius = draw(st.sampled_from([2, 5]))
        base = [draw(lattice_box(radius)) for _ in range(draw(st.integers(1, 6)))]
        for b in base:
            boxes.extend([list(b)] * draw(st.integers(1, 5)))
    else:
        # up to the edge of the float range: every finite coordinate is a legal one (sums of two such overflow)
        scale = draw(st.sampled_from([10.0 ** draw(st.integers(-2, 4)), 10.0 ** draw(st.integers(-2, 4)), 1e300,
                                      1.7e308]))
        if scale >= 1e300:
            tags.add("huge_coordinates")
        coord = st.floats(min_value=-1.0, max_value=1.0, allow_nan=False, width=64)
        n = draw(st.one_of(st.integers(0, 10), st.integers(0, 80)))
        for _ in range(n):
            xa, xb = sorted([draw(coord) * scale, draw(coord) * scale])
            ya, yb = sorted([draw(coord) * scale, draw(coord) * scale])
            shape = draw(st.integers(0, 5))
            if shape == 0:
                xb = xa
            elif shape == 1:
                yb = ya
            boxes.append([xa, ya, xb, yb])
    boxes = boxes[:80] if kind != "geometric" else boxes
    order = draw(st.permutations(range(len(boxes)))) if len(boxes) <= 12 and draw(st.booleans()) else \
        list(range(len(boxes)))
    boxes = [boxes[k] for k in order]
    id_style = draw(st.sampled_from(["index", "index", "offset", "str", "mixed"]))
    if id_style == "index":
        ids = list(range(len(boxes)))
    elif id_style == "offset":
        ids = [100 + 7 * k for k in range(len(boxes))]
    elif id_style == "mixed":
        # identifiers are whatever the caller uses as keys: None, False/True, 0, '', tuples (as JSON: lists)
        pool = [None, 0, "", False, "0", -1, 1.5, "None"]
        ids = [pool[k] if k < len(pool) else "id%d" % k for k in range(len(boxes))]
        if len({repr(i) for i in ids}) == len(ids) and len(set(map(lambda v: (type(v).__name__, v), ids))) == len(ids):
            tags.add("unusual_ids")
        # 0 == False and would collapse in a set: keep only one of them
        ids = [("zero" if i is False else i) for i in ids]
    else:
        ids = ["path%d" % k for k in range(len(boxes))]
    # queries
    queries = []
    tagged = set()
    if boxes:
        ex = [min(b[0] for b in boxes), min(b[1] for b in boxes), max(b[2] for b in boxes), max(b[3] for b in boxes)]
    else:
        ex = [0, 0, 0, 0]
    unit = 1 if kind not in ("continuous", "geometric") else (abs(ex[2] / 16 - ex[0] / 16) + abs(ex[3] / 16 - ex[1] / 16)
                                                             or 1.0)
    if "huge_coordinates" in tags:
        unit = 0.0                                   # no room left to step outside the extent without overflowing
    huge = "huge_coordinates" in tags

    def mix(a, b, t):
        """a + (b - a) * t without overflowing (b - a) at the edge of the float range."""
        if huge:
            t = max(0.0, min(1.0, t))
        return a * (1 - t) + b * t
    nq = 8
    for _ in range(nq):
        qk = draw(st.sampled_from(["touch_side", "touch_corner", "edge_segment", "same", "inside_point", "outer_edge",
                                   "enclosing", "disjoint", "random", "random", "point"]))
        if not boxes and qk in ("touch_side", "touch_corner", "edge_segment", "same", "inside_point"):
            qk = "random"
        if qk in ("touch_side", "touch_corner", "edge_segment", "same", "inside_point"):
            b = boxes[draw(st.integers(0, len(boxes) - 1))]
            d = unit * draw(st.sampled_from([0, 1, 2, 5]))
            side = draw(st.sampled_from(["r", "l", "t", "b"]))
            if qk == "touch_side":
                q = {"r": [b[2], b[1], b[2] + d, b[3]], "l": [b[0] - d, b[1], b[0], b[3]],
                     "t": [b[0], b[3], b[2], b[3] + d], "b": [b[0], b[1] - d, b[2], b[1]]}[side]
            elif qk == "touch_corner":
                q = {"r": [b[2], b[3], b[2] + d, b[3] + d], "l": [b[0] - d, b[1] - d, b[0], b[1]],
                     "t": [b[0] - d, b[3], b[0], b[3] + d], "b": [b[2], b[1] - d, b[2] + d, b[1]]}[side]
            elif qk == "edge_segment":
                q = {"r": [b[2], b[1], b[2], b[3]], "l": [b[0], b[1], b[0], b[3]],
                     "t": [b[0], b[3], b[2], b[3]], "b": [b[0], b[1], b[2], b[1]]}[side]
            elif qk == "same":
                q = list(b)
            else:
                px = b[0] / 2 + b[2] / 2
                py = b[1] / 2 + b[3] / 2
                q = [px, py, px, py]
        elif qk == "outer_edge":
            d = unit * draw(st.sampled_from([0, 1, 3]))
            side = draw(st.sampled_from(["r", "l", "t", "b", "c"]))
            q = {"r": [ex[2], ex[1], ex[2] + d, ex[3]], "l": [ex[0] - d, ex[1], ex[0], ex[3]],
                 "t": [ex[0], ex[3], ex[2], ex[3] + d], "b": [ex[0], ex[1] - d, ex[2], ex[1]],
                 "c": [ex[2], ex[3], ex[2] + d, ex[3] + d]}[side]
            tagged.add("outer_edge_query")
        elif qk == "enclosing":
            q = [ex[0] - unit, ex[1] - unit, ex[2] + unit, ex[3] + unit]
            tagged.add("enclosing_query")
        elif qk == "disjoint":
            q = [ex[2] + unit, ex[3] + unit, ex[2] + 3 * unit, ex[3] + 3 * unit]
            tagged.add("disjoint_query")
        elif qk == "point":
            if kind in ("continuous", "geometric"):
                px = mix(ex[0], ex[2], draw(st.integers(0, 8)) / 8)
                py = mix(ex[1], ex[3], draw(st.integers(0, 8)) / 8)
            else:
                px = draw(st.integers(int(ex[0]) - 1, int(ex[2]) + 1))
                py = draw(st.integers(int(ex[1]) - 1, int(ex[3]) + 1))
            q = [px, py, px, py]
        else:
            if kind in ("continuous", "geometric"):
                fr = st.integers(-2, 10)
                xs = sorted([mix(ex[0], ex[2], draw(fr) / 8), mix(ex[0], ex[2], draw(fr) / 8)])
                ys = sorted([mix(ex[1], ex[3], draw(fr) / 8), mix(ex[1], ex[3], draw(fr) / 8)])
            else:
                xs = sorted([draw(st.integers(int(ex[0]) - 2, int(ex[2]) + 2)),
                             draw(st.integers(int(ex[0]) - 2, int(ex[2]) + 2))])
                ys = sorted([draw(st.integers(int(ex[1]) - 2, int(ex[3]) + 2)),
                             draw(st.integers(int(ex[1]) - 2, int(ex[3]) + 2))])
            q = [xs[0], ys[0], xs[1], ys[1]]
        queries.append(q)
    return {"boxes": [[i, b] for i, b in zip(ids, boxes)], "queries": queries, "tags": sorted(tags | tagged)}


SMALL_BOXES = [[x1, y1, x2, y2] for x1, x2 in ((0, 0), (0, 1), (0, 2), (1, 1), (1, 2), (2, 2))
               for y1, y2 in ((0, 0), (0, 2), (1, 1), (2, 2))]
SMALL_QUERIES = [[x1, y1, x2, y2] for x1, x2 in ((0, 0), (1, 1), (2, 2), (0, 1), (1, 2), (-1, 0), (2, 3), (0, 2))
                 for y1, y2 in ((0, 0), (1, 1), (2, 2), (0, 1), (1, 2), (0, 2))]


def small_worlds():
    for n in (1, 2, 3):
        for combo in itertools.combinations_with_replacement(range(len(SMALL_BOXES)), n):
            yield {"boxes": [[k, SMALL_BOXES[j]] for k, j in enumerate(combo)], "queries": SMALL_QUERIES,
                   "tags": ["small_world"]}


def sheet(n, style):
    """A full sheet of n short strokes / dots / small boxes, spread by an additive low-discrepancy sequence (no
    random numbers): what a dense drawing hands to the index in one go."""
    boxes = []
    for i in range(n):
        x = math.fmod(i * 0.6180339887498949, 1.0) * 1000.0
        y = math.fmod(i * 0.7548776662466927, 1.0) * 1000.0
        if style == "strokes":
            w, h = (0.0, 1.5, 4.0)[i % 3], (4.0, 0.0, 1.5)[i % 3]
        elif style == "dots":
            w = h = 0.0
        else:
            w, h = 1.0 + (i % 7), 1.0 + (i % 5)
        boxes.append([i, [x, y, x + w, y + h]])
    return boxes


def large_sheets():
    for n, style in ((1500, "strokes"), (5000, "dots"), (8000, "strokes"), (12000, "boxes")):
        yield {"sheet": [n, style], "tags": ["large_collection(>=1500)"]}


def large_body(ctx, case):
    """Thousands of boxes in one index (nodes that hold more than a thousand boxes on the way down): every 40th box
    is asked for at its own corner, plus strips along the sheet's edges and a few windows."""
    n, style = case["sheet"]
    boxes = sheet(n, style)
    queries = []
    for k in range(0, n, 40):
        b = boxes[k][1]
        queries.append([b[0], b[1], b[0], b[1]])
    queries += [[0, 0, 0.5, 1000], [0, 0, 1000, 0.5], [999.5, 0, 1004, 1004], [0, 999.5, 1004, 1004],
                [250, 250, 260, 260], [499.9, 0, 500.1, 1000], [-5, -5, -1, -1]]
    body(ctx, {"boxes": boxes, "queries": queries, "tags": case["tags"]}, report=case, budget=40 * LINE_BUDGET)


def run(ctx):
    ctx.exhaustive("large_sheets", large_sheets(), large_body,
                   "4 sheets of 1500 .. 12000 strokes / dots / boxes, each box's own corner (every 40th) + 7 strips "
                   "and windows, against brute force")
    ctx.exhaustive("small_worlds", small_worlds(), body,
                   "every multiset of <= 3 boxes from 24 lattice boxes on {0,1,2}^2 x 48 lattice queries")
    ctx.given("generated", layouts(), body, quick=2500, thorough=300000)
    if ctx.thorough and ctx.shard == 0:
        from pbt.fuzz import driver
        driver.run_stage(ctx, "c14_layouts", runs=15000, max_len=4096)


def replay(ctx, part, case):
    if "sheet" in case:
        large_body(ctx, case)
        return
    body(ctx, case)
