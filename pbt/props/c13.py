"""C13 — grid index: nearest() returns a live path end that no neighbouring end beats."""
import math
from fractions import Fraction as F

from hypothesis import strategies as st

from pbt import sut
from pbt.sut import call_sut

ID = "C13"
RULE = ("Histories: an index over 1..40 paths (integer lattice with many coincident ends, clusters, collinear rows "
        "and columns, two-decimal page coordinates, continuous floats over scales 1e-3..1e6 with offsets; 1..12 or "
        "50 bins per side; reversal on/off) followed by 1..30 operations: nearest(q) with q exactly at an end, a "
        "fraction of a cell away from an end, anywhere inside, on a cell border, outside the grid on one axis or "
        "both (up to 2 extents away) - and remove(live path), including removing everything. Oracle: a model of "
        "the live ends plus a reference grid built from the index's published geometry (falling back to the "
        "documented extent + (w+h)/200 margin), with +/- 1e-9 cell ambiguity at borders: None <=> nothing left; the "
        "id denotes a live start, or a live end only if reversal is on; no farther (exact rational squared "
        "distance, 1e-12 relative slack) than every live end surely inside the 3x3 neighbourhood; the global "
        "nearest when the neighbourhood is surely empty; the true nearest whenever one lies within one cell width "
        "of an in-grid query. Non-trivial: a query issued after >= 1 removal. Distinct = (index, history prefix).")
ASSUMPTIONS = [
    "the ends that are indexed (starts; ends too only with reversal) do not all coincide (non-zero extent, the "
    "statement's precondition); remove() is only called for a path that is still live",
    "coordinates that are not equal differ by at least ~1e-6 of the drawing's scale (continuous inputs are drawn on "
    "a 2^-20 grid of the scale): with subnormal differences the squared distance underflows to 0 and the margin "
    "(w+h)/200 underflows, which is float range exhaustion, not index behaviour",
    "queries whose neighbourhood membership is decided only by ends within 1e-9 cell of a border assert nothing "
    "about the neighbourhood (counted as ambiguous_skipped); validity and the global clauses still apply",
]
REQUIRED_CLASSES = ["nontrivial", "fallback_global", "outside_one_axis", "outside_both_axes", "reversed_end_returned",
                    "id0_returned", "bins=1", "bins=2", "bins>=3", "none_returned", "within_one_cell",
                    "query_at_end", "reverse_on", "reverse_off", "neighbourhood_not_global", "after_removal",
                    "lattice", "continuous", "id0_in_neighbourhood", "other_index_alive", "vertices_as_tuples", "bins>64", "near_tie_decides"]
QUICK_SHARDS = 4

spatial_grid = sut.load("spatial_grid")
_PROBE_PATHS = [[[0.0, 0.0], [1.0, 1.0]], [[9.0, 9.0], [8.0, 8.0]], [[4.0, 5.0], [5.0, 4.0]]]
OPTION_PROBES = [(spatial_grid.Index, ["vertices", "bins_per_side", "reverse"], [_PROBE_PATHS, 3, True]),
                 (spatial_grid.Index.nearest, ["self", "vertex_in"],
                  lambda: [spatial_grid.Index([list(map(list, p)) for p in _PROBE_PATHS], 3, True), [4.0, 4.0]]),
                 (spatial_grid.Index.remove_path, ["self", "path_index"],
                  lambda: [spatial_grid.Index([list(map(list, p)) for p in _PROBE_PATHS], 3, True), 1])]

AMBIG = F(1, 10 ** 9)
SLACK = F(1, 10 ** 12)


class RefGrid:
    """Cell geometry, independent of the index's own cell bookkeeping."""

    def __init__(self, index, ends, bins):
        self.bins = bins
        try:
            self.xmin, self.ymin = F(index.xmin), F(index.ymin)
            self.bw, self.bh = F(index.bin_size_x), F(index.bin_size_y)
            if int(index.bins_per_side) != bins or self.bw <= 0 or self.bh <= 0:
                raise ValueError
            self.source = "published"
        except Exception:  # pylint: disable=broad-except
            xs = [F(p[0]) for p in ends]
            ys = [F(p[1]) for p in ends]
            shim = (max(xs) - min(xs) + max(ys) - min(ys)) / 200
            self.xmin, self.ymin = min(xs) - shim, min(ys) - shim
            self.bw = (max(xs) - min(xs) + 2 * shim) / bins
            self.bh = (max(ys) - min(ys) + 2 * shim) / bins
            self.source = "documented"

    def _axis(self, value, origin, size):
        t = (F(value) - origin) / size
        lo, hi = math.floor(t - AMBIG), math.floor(t + AMBIG)
        clamp = lambda c: max(0, min(self.bins - 1, c))
        return {clamp(lo), clamp(hi)}

    def cells(self, point):
        return self._axis(point[0], self.xmin, self.bw), self._axis(point[1], self.ymin, self.bh)

    def in_grid(self, point, margin=F(1, 10 ** 6)):
        tx = (F(point[0]) - self.xmin) / self.bw
        ty = (F(point[1]) - self.ymin) / self.bh
        return margin <= tx <= self.bins - margin and margin <= ty <= self.bins - margin

    def outside_axes(self, point):
        tx = (F(point[0]) - self.xmin) / self.bw
        ty = (F(point[1]) - self.ymin) / self.bh
        return int(tx < 0 or tx > self.bins) + int(ty < 0 or ty > self.bins)


def sqd(p, q):
    return (F(p[0]) - F(q[0])) ** 2 + (F(p[1]) - F(q[1])) ** 2


def body(ctx, case):
    mk = tuple if case.get("tuples") else list          # the docstring says "(x, y) tuple"; callers also pass lists
    paths = [[mk(a), mk(b)] for a, b in case["paths"]]
    bins, reverse = case["bins"], case["reverse"]
    base = set(case.get("tags", []))
    base.add("reverse_on" if reverse else "reverse_off")
    if case.get("tuples"):
        base.add("vertices_as_tuples")
    base.add("bins=1" if bins == 1 else ("bins=2" if bins == 2 else "bins>=3"))
    if bins > 64:
        base.add("bins>64")
    count = len(paths)
    what = "Index(%r, %r, %r)" % (case["paths"], bins, reverse)
    index = call_sut(spatial_grid.Index, paths, bins, reverse)
    if case.get("decoy"):
        # another index (other size, other paths) is built and used while this one is alive; it must not matter
        base.add("other_index_alive")
        d_bins, d_reverse, d_shift = case["decoy"]
        d_paths = [[[a[0] + d_shift, a[1] - d_shift], [b[0] - d_shift, b[1] + d_shift]] for a, b in case["paths"]]
        d_paths.append([[d_paths[0][0][0] + abs(d_shift) + 1, d_paths[0][0][1]], [d_paths[0][1][0], d_paths[0][1][1] + 1]])
        decoy = call_sut(spatial_grid.Index, d_paths, d_bins, d_reverse)
        call_sut(decoy.nearest, list(d_paths[0][0]))
        call_sut(decoy.remove_path, 0)
    indexed = [p[0] for p in paths] + ([p[1] for p in paths] if reverse else [])
    ref = RefGrid(index, indexed, bins)
    ctx.count("grid_from_" + ref.source)
    end_cells = {}
    for i, (start, end) in enumerate(case["paths"]):
        end_cells[i] = ref.cells(start)
        if reverse:
            end_cells[count + i] = ref.cells(end)
    live = set(range(count))
    removed = 0
    history = []          # operations as generated (replayable)
    shown = []            # the same with removal victims resolved to path numbers (for messages)
    for op in case["ops"]:
        history.append(op)
        shown.append(op)
        if op[0] == "r":
            live_sorted = sorted(live)
            if not live_sorted:
                continue
            victim = live_sorted[op[1] % len(live_sorted)]
            shown[-1] = ["remove", victim]
            try:
                index.remove_path(victim)
            except Exception as exc:  # pylint: disable=broad-except
                ctx.record(dict(case, ops=list(history)), base, removed > 0)
                ctx.fail("%s: remove_path(%d) of a live path raised %s: %s after %r"
                         % (what, victim, type(exc).__name__, exc, shown[:-1]), dict(case, ops=list(history)))
            live.discard(victim)
            removed += 1
            continue
        q = op[1]
        sub = dict(case, ops=list(history))
        classes = set(base)
        if removed:
            classes.add("after_removal")
        try:
            got = index.nearest(mk(q))
        except Exception as exc:  # pylint: disable=broad-except
            ctx.record(sub, classes, removed > 0)
            ctx.fail("%s: nearest(%r) raised %s: %s after %r" % (what, q, type(exc).__name__, exc, shown[:-1]), sub)
        where = "%s after %r: nearest(%r) = %r" % (what, shown[:-1], q, got)
        live_ends = {}
        for i in live:
            live_ends[i] = case["paths"][i][0]
            if reverse:
                live_ends[count + i] = case["paths"][i][1]
        n_out = ref.outside_axes(q)
        if n_out == 1:
            classes.add("outside_one_axis")
        elif n_out == 2:
            classes.add("outside_both_axes")
        if not live_ends:
            classes.add("none_returned")
            ctx.record(sub, classes, removed > 0)
            if got is not None:
                ctx.fail("%s, but no path remains (expected None)" % where, sub)
            continue
        if got is None:
            ctx.record(sub, classes, removed > 0)
            ctx.fail("%s although %d path(s) remain" % (where, len(live)), sub)
        if isinstance(got, bool) or not isinstance(got, int) or got not in live_ends:
            ctx.record(sub, classes, removed > 0)
            if isinstance(got, int) and not isinstance(got, bool) and 0 <= got < (2 if reverse else 1) * count:
                why = "path %d has been removed" % (got % count) if (got % count) not in live else \
                    "reversal is off, so only starts may be returned"
            elif isinstance(got, int) and count <= got < 2 * count:
                why = "reversal is off, so only starts may be returned"
            else:
                why = "not an end identifier"
            ctx.fail("%s: %s" % (where, why), sub)
        if got >= count:
            classes.add("reversed_end_returned")
        if got == 0:
            classes.add("id0_returned")
        qx, qy = ref.cells(q)
        dist = {k: sqd(q, p) for k, p in live_ends.items()}
        d_got = dist[got]
        d_min = min(dist.values())
        if d_got == 0 and any(tuple(q) == tuple(p) for p in live_ends.values()):
            classes.add("query_at_end")
        sure, poss = [], []
        for k in live_ends:
            ex, ey = end_cells[k]
            all_near = all(abs(a - b) <= 1 for a in ex for b in qx) and all(abs(a - b) <= 1 for a in ey for b in qy)
            any_near = any(abs(a - b) <= 1 for a in ex for b in qx) and any(abs(a - b) <= 1 for a in ey for b in qy)
            if all_near:
                sure.append(k)
            if any_near:
                poss.append(k)
        if 0 in sure:
            classes.add("id0_in_neighbourhood")
        if sure:
            d_sure = min(dist[k] for k in sure)
            if d_sure > d_min:
                classes.add("neighbourhood_not_global")
        elif not poss:
            classes.add("fallback_global")
        else:
            classes.add("ambiguous_skipped")
        ordered = sorted(dist.values())
        if len(ordered) >= 2 and ordered[0] != ordered[1] and ordered[1] - ordered[0] <= ordered[1] / 10 ** 6:
            classes.add("near_tie_decides")
        one_cell = min(ref.bw, ref.bh)
        within = ref.in_grid(q) and d_min <= (one_cell * (1 - F(1, 10 ** 6))) ** 2
        if within:
            classes.add("within_one_cell")
        ctx.record(sub, classes, nontrivial=removed > 0)
        if sure:
            best = min(sure, key=lambda k: dist[k])
            if d_got > dist[best] * (1 + SLACK):
                ctx.fail("%s at distance %.9g, but live end %d at %r lies in the query's 3x3 cell neighbourhood at "
                         "distance %.9g" % (where, math.sqrt(d_got), best, live_ends[best], math.sqrt(dist[best])),
                         sub)
        elif not poss:
            if d_got > d_min * (1 + SLACK):
                best = min(dist, key=lambda k: dist[k])
                ctx.fail("%s at distance %.9g; the neighbourhood is empty, so the globally closest live end %d at "
                         "distance %.9g is required" % (where, math.sqrt(d_got), best, math.sqrt(d_min)), sub)
        if within and d_got > d_min * (1 + SLACK):
            best = min(dist, key=lambda k: dist[k])
            ctx.fail("%s at distance %.9g, but live end %d lies within one cell width (%.9g) of this in-grid query, "
                     "at distance %.9g" % (where, math.sqrt(d_got), best, float(one_cell), math.sqrt(d_min)), sub)


# ------------------------------------------------------------------ generators
@st.composite
def point_sets(draw):
    """-> (list of paths, tag, scale)"""
    kind = draw(st.sampled_from(["lattice", "lattice", "cluster", "row", "column", "page", "continuous",
                                 "continuous", "two_far_groups"]))
    n = draw(st.one_of(st.integers(1, 6), st.integers(1, 40)))
    if kind == "lattice":
        r = draw(st.sampled_from([2, 4, 10, 100]))
        pt = st.tuples(st.integers(0, r), st.integers(0, r))
        scale = r
    elif kind == "cluster":
        r = 1000
        centres = [draw(st.tuples(st.integers(0, r), st.integers(0, r))) for _ in range(draw(st.integers(1, 4)))]
        spread = draw(st.sampled_from([0, 1, 5, 30]))

        @st.composite
        def clustered(d):
            c = d(st.sampled_from(centres))
            return (c[0] + d(st.integers(-spread, spread)), c[1] + d(st.integers(-spread, spread)))
        pt = clustered()
        scale = r
    elif kind == "row":
        y0 = draw(st.integers(-5, 5))
        pt = st.tuples(st.integers(0, 50), st.just(y0))
        scale = 50
    elif kind == "column":
        x0 = draw(st.integers(-5, 5))
        pt = st.tuples(st.just(x0), st.integers(0, 50))
        scale = 50
    elif kind == "page":
        pt = st.tuples(st.integers(0, 10000).map(lambda v: v / 100.0), st.integers(0, 10000).map(lambda v: v / 100.0))
        scale = 100
    elif kind == "two_far_groups":
        gap = draw(st.sampled_from([100, 1000]))

        @st.composite
        def grouped(d):
            side = d(st.booleans())
            return ((gap if side else 0) + d(st.integers(0, 5)), (gap if d(st.booleans()) else 0) + d(st.integers(0, 5)))
        pt = grouped()
        scale = gap
    else:
        scale = 10.0 ** draw(st.integers(-3, 6))
        off = draw(st.sampled_from([0.0, 0.0, 1.0, -3.0, 1000.0])) * scale
        # 2^-20 steps: distinct coordinates differ by >= 1e-6 of the scale, so squared distances neither underflow
        # nor lose their order to rounding (a drawing with a dynamic range of 1e300 is outside any plotter's use)
        unit = st.integers(0, 1 << 20).map(lambda k: k / float(1 << 20))
        pt = st.tuples(unit.map(lambda u: off + u * scale), unit.map(lambda u: off + u * scale))
    paths = [[list(draw(pt)), list(draw(pt))] for _ in range(n)]
    tag = "continuous" if kind in ("continuous", "page") else "lattice"
    return paths, kind, tag, scale


@st.composite
def histories(draw):
    paths, kind, tag, scale = draw(point_sets())
    reverse = draw(st.booleans())
    bins = draw(st.sampled_from([1, 1, 2, 2, 3, 3, 4, 4, 5, 6, 7, 8, 10, 12, 50, 64, 65, 80, 100]))
    # the statement's precondition: indexed ends have non-zero extent
    indexed = [p[0] for p in paths] + ([p[1] for p in paths] if reverse else [])
    if len({tuple(p) for p in indexed}) < 2:
        if len(paths) == 1 and not reverse:
            paths.append([[paths[0][0][0] + scale, paths[0][0][1] + (scale if kind not in ("row",) else 0)],
                          list(paths[0][1])])
        elif reverse:
            paths[0][1] = [paths[0][0][0] + scale, paths[0][0][1]]
        else:
            paths[-1][0] = [paths[0][0][0], paths[0][0][1] + scale]
    indexed = [p[0] for p in paths] + ([p[1] for p in paths] if reverse else [])
    xs, ys = [p[0] for p in indexed], [p[1] for p in indexed]
    x0, x1, y0, y1 = min(xs), max(xs), min(ys), max(ys)
    shim = (x1 - x0 + y1 - y0) / 200
    gx0, gy0 = x0 - shim, y0 - shim
    bw, bh = (x1 - x0 + 2 * shim) / bins, (y1 - y0 + 2 * shim) / bins
    w, h = x1 - x0 + 2 * shim, y1 - y0 + 2 * shim
    frac = st.integers(0, 1000).map(lambda v: v / 1000.0)
    n_ops = draw(st.integers(1, 30))
    drain = draw(st.integers(0, 9)) == 0          # remove everything, then keep asking
    ops = []
    for k in range(n_ops):
        if draw(st.integers(0, 9)) < (6 if drain else 3):
            ops.append(["r", draw(st.integers(0, 10 ** 6))])
            continue
        qk = draw(st.sampled_from(["at_end", "near_end", "near_end", "inside", "border", "out_x", "out_y", "out_both",
                                   "far", "corner", "near_tie", "last_cells"]))
        if qk == "near_tie" and len(indexed) >= 2:
            # almost exactly half-way between two indexed ends: one is closer by a relative 1e-10 .. 1e-7, which is
            # far above float noise (1e-16) and must decide the answer
            a = draw(st.sampled_from(indexed))
            b = draw(st.sampled_from(indexed))
            eps = draw(st.sampled_from([1e-10, 1e-9, 3e-10, 1e-8, 1e-7])) * draw(st.sampled_from([1, -1]))
            q = [(a[0] + b[0]) / 2 + (b[0] - a[0]) * eps, (a[1] + b[1]) / 2 + (b[1] - a[1]) * eps]
            ops.append(["q", q])
            continue
        if qk == "last_cells":
            # in the last two columns / rows of the grid
            q = [gx0 + w - bw * draw(st.sampled_from([0.25, 0.5, 1.25, 1.5])),
                 gy0 + (h * draw(frac) if draw(st.booleans()) else h - bh * draw(st.sampled_from([0.25, 1.25])))]
            if draw(st.booleans()):
                q = [q[1] - gy0 + gx0 if w == h else gx0 + w * draw(frac), gy0 + h - bh * draw(st.sampled_from([0.25, 0.5, 1.25]))]
            ops.append(["q", q])
            continue
        if qk == "at_end":
            q = list(draw(st.sampled_from(indexed)))
        elif qk == "near_end":
            e = draw(st.sampled_from(indexed))
            r = draw(st.sampled_from([0.05, 0.3, 0.6, 0.9, 0.99, 1.2, 2.0]))
            ang = draw(st.sampled_from([(1, 0), (-1, 0), (0, 1), (0, -1), (0.7, 0.7), (-0.7, 0.7), (0.7, -0.7),
                                        (-0.7, -0.7)]))
            q = [e[0] + ang[0] * r * min(bw, bh), e[1] + ang[1] * r * min(bw, bh)]
        elif qk == "inside":
            q = [gx0 + w * draw(frac), gy0 + h * draw(frac)]
        elif qk == "border":
            q = [gx0 + bw * draw(st.integers(0, bins)), gy0 + bh * draw(st.integers(0, bins))]
            if draw(st.booleans()):
                q[draw(st.integers(0, 1))] += (draw(frac) - 0.5) * min(bw, bh)
        elif qk == "out_x":
            side = draw(st.booleans())
            q = [(gx0 + w + w * 2 * draw(frac)) if side else (gx0 - w * 2 * draw(frac)), gy0 + h * draw(frac)]
        elif qk == "out_y":
            side = draw(st.booleans())
            q = [gx0 + w * draw(frac), (gy0 + h + h * 2 * draw(frac)) if side else (gy0 - h * 2 * draw(frac))]
        elif qk == "out_both":
            q = [gx0 + (w * (1 + draw(frac)) if draw(st.booleans()) else -w * draw(frac)),
                 gy0 + (h * (1 + draw(frac)) if draw(st.booleans()) else -h * draw(frac))]
        elif qk == "corner":
            q = [draw(st.sampled_from([gx0, gx0 + w, x0, x1])), draw(st.sampled_from([gy0, gy0 + h, y0, y1]))]
        else:
            q = [gx0 + w * draw(st.sampled_from([-50.0, 51.0])), gy0 + h * draw(st.sampled_from([-50.0, 0.5, 51.0]))]
        if tag == "lattice" and draw(st.booleans()):
            q = [float(round(q[0])), float(round(q[1]))]
        ops.append(["q", q])
    if drain:
        ops.append(["q", list(indexed[0])])
    case = {"paths": paths, "bins": bins, "reverse": reverse, "ops": ops, "tags": [tag, kind],
            "tuples": draw(st.integers(0, 2)) == 0}
    if draw(st.integers(0, 3)) == 0:
        case["decoy"] = [draw(st.sampled_from([b for b in (1, 2, 3, 4, 5, 7, 12) if b != bins])), draw(st.booleans()),
                         draw(st.sampled_from([1, 3, scale]))]
    return case


def run(ctx):
    ctx.given("histories", histories(), body, quick=2500, thorough=300000)
    if ctx.thorough and ctx.shard == 0:
        from pbt.fuzz import driver
        driver.run_stage(ctx, "c13_histories", runs=10000, max_len=4096)


def replay(ctx, part, case):
    body(ctx, case)
