"""C08 — segment clipping returns exactly the part of the segment inside the rectangle."""
import math
from fractions import Fraction as F

from hypothesis import strategies as st

from pbt import sut
from pbt.sut import BudgetExceeded
from pbt.oracles import geom

ID = "C08"
RULE = ("Segments x axis-aligned rectangles over coordinate scales 10^-3..10^6 with an optional large common "
        "offset, on a float lattice (exact coincidences) or dyadic-continuous; rectangles with 10% zero "
        "width/height; endpoints anywhere / inside / on or 1-2 ulp either side of an edge or corner / in the "
        "surrounding 5x5 boxes; zero-length, vertical and horizontal segments. Oracle: exact rational "
        "Liang-Barsky, bracketed by the rectangle shrunk by tol = 1e-9 x coordinate scale (must accept and "
        "cover) and the rectangle grown by tol (returned endpoints must lie on the input segment and in the "
        "rectangle within tol, orientation kept). Non-trivial: at least one endpoint outside the rectangle. "
        "Distinct = distinct (segment, rectangle).")
ASSUMPTIONS = [
    "tolerance = 1e-9 x largest |coordinate| (the caller-side notion in point_in_bounds); a defect smaller than "
    "that is invisible",
    "no two coordinates differ by a subnormal amount (a dynamic range of 1e300 within one drawing overflows "
    "the slope; excluded from the domain, see DESIGN §4 C08)",
    "termination is observed with a deterministic budget of 10^4 executed lines (the unchanged code needs < 200)",
]
REQUIRED_CLASSES = ["nontrivial", "accept", "reject", "zero_area_rect", "zero_length", "vertical", "horizontal",
                    "near_edge_ulp", "both_outside_accept", "one_inside", "both_inside", "large_offset",
                    "corner_region", "through_corner", "second_call_same_arguments", "points_as_tuples", "corner_sweep_lines"]
QUICK_SHARDS = 4

plot_utils = sut.load("plot_utils")
OPTION_PROBES = [(plot_utils.clip_segment, ["segment", "bounds"], [[[-2.0, 1.0], [7.0, 4.0]], [[0.0, 0.0], [5.0, 5.0]]])]

LINE_BUDGET = 10000


def region(x, y, xmin, ymin, xmax, ymax):
    cx = 0 if x < xmin else (2 if x > xmax else 1)
    cy = 0 if y < ymin else (2 if y > ymax else 1)
    return cx, cy


def body(ctx, case):
    """One call - or, when case["again"] is set, the same call twice with the returned segment edited in place in
    between (a caller applying an offset to what it got back): the second answer must be judged like the first."""
    seg = once(ctx, case)
    if case.get("again"):
        try:
            for point in seg:
                point[0] += case["again"]
                point[1] -= case["again"]
        except Exception:  # pylint: disable=broad-except
            pass                                   # result not a mutable list of points: nothing to edit
        ctx.count("second_call_after_editing_the_result")
        once(ctx, case, second=True)


def once(ctx, case, second=False):
    (x1, y1), (x2, y2) = case["seg"]
    (xmin, ymin), (xmax, ymax) = case["rect"]
    coords = [x1, y1, x2, y2, xmin, ymin, xmax, ymax]
    scale = max(abs(c) for c in coords)
    tol = F(scale) * F(1, 10 ** 9)
    tol2 = tol * tol
    p, q = geom.pt((x1, y1)), geom.pt((x2, y2))
    fxmin, fymin, fxmax, fymax = F(xmin), F(ymin), F(xmax), F(ymax)
    r1 = region(x1, y1, xmin, ymin, xmax, ymax)
    r2 = region(x2, y2, xmin, ymin, xmax, ymax)
    classes = {"regions_%d%d_%d%d" % (r1 + r2)} if ctx.thorough else set()
    inside1, inside2 = r1 == (1, 1), r2 == (1, 1)
    if xmin == xmax or ymin == ymax:
        classes.add("zero_area_rect")
    if (x1, y1) == (x2, y2):
        classes.add("zero_length")
    elif x1 == x2:
        classes.add("vertical")
    elif y1 == y2:
        classes.add("horizontal")
    if case.get("ulp"):
        classes.add("near_edge_ulp")
    if case.get("offset"):
        classes.add("large_offset")
    if case.get("corner"):
        classes.add("through_corner")
    if inside1 and inside2:
        classes.add("both_inside")
    elif inside1 or inside2:
        classes.add("one_inside")
    if (r1[0] != 1 and r1[1] != 1) or (r2[0] != 1 and r2[1] != 1):
        classes.add("corner_region")

    try:
        if case.get("tuples"):
            # callers also hand in points as tuples (immutable): nothing may rely on writing into them
            arg_seg, arg_rect = ((x1, y1), (x2, y2)), ((xmin, ymin), (xmax, ymax))
        else:
            arg_seg, arg_rect = [[x1, y1], [x2, y2]], [[xmin, ymin], [xmax, ymax]]
        (accept, seg), _lines = sut.call_budget(plot_utils.clip_segment, (arg_seg, arg_rect),
                                                line_budget=LINE_BUDGET)
    except BudgetExceeded as exc:
        ctx.record(case, classes, True)
        ctx.fail("clip_segment did not return within %d executed lines (%s)" % (LINE_BUDGET, exc), case)
    except Exception as exc:  # pylint: disable=broad-except
        ctx.record(case, classes, True)
        ctx.fail("clip_segment raised %s: %s" % (type(exc).__name__, exc), case)
    classes.add("accept" if accept else "reject")
    if case.get("tuples"):
        classes.add("points_as_tuples")
    if second:
        classes.add("second_call_same_arguments")
    if accept and not inside1 and not inside2:
        classes.add("both_outside_accept")
    ctx.record(case, classes, nontrivial=not (inside1 and inside2))

    what = "clip_segment(%r, %r)" % (case["seg"], case["rect"])
    if second:
        what = "second call of " + what + " (after the first result was edited in place)"
    # The part of the segment that is inside by more than tol: clip against the rectangle shrunk by tol
    # (a rectangle thinner than 2 tol keeps its centre line).  `outer` is the part inside the rectangle
    # grown by tol.  An end of `inner` is *stable* when the corresponding end of `outer` is within
    # STABLE x tol of it, i.e. the segment crosses that boundary at an angle above ~1/STABLE: only then
    # is the crossing well-conditioned enough for the tolerance to mean anything (a segment almost
    # parallel to an edge, or to a zero-area rectangle, moves its crossing by far more than tol when
    # an input changes by one ulp).
    sx = min(tol, (fxmax - fxmin) / 2)
    sy = min(tol, (fymax - fymin) / 2)
    robust = (fxmax - fxmin) >= 2 * tol and (fymax - fymin) >= 2 * tol
    inner = geom.liang_barsky(p, q, fxmin + sx, fymin + sy, fxmax - sx, fymax - sy)
    outer = geom.liang_barsky(p, q, fxmin - tol, fymin - tol, fxmax + tol, fymax + tol)
    seglen2 = (q[0] - p[0]) ** 2 + (q[1] - p[1]) ** 2
    stable = [False, False]
    if inner is not None and outer is not None:
        for i in (0, 1):
            gap = inner[i] - outer[i]
            stable[i] = gap * gap * seglen2 <= (STABLE * tol) ** 2
        # The gap saturates at the rectangle's own size, so for a rectangle only a few thousand tolerances wide it
        # cannot see a grazing crossing.  Second criterion, from the angles themselves: a boundary line the segment
        # meets at a sine below 1/STABLE moves its crossing by more than STABLE x tol when the line moves by tol;
        # if such a boundary is - or after that move could be - the one that limits this end, the end is unstable.
        d = (q[0] - p[0], q[1] - p[1])
        lo = (fxmin + sx, fymin + sy)
        hi = (fxmax - sx, fymax - sy)
        for k in (0, 1):
            if d[k] == 0 or d[k] * d[k] * STABLE * STABLE >= seglen2:
                continue                                    # parallel (never crosses) or crossed at a fair angle
            ta, tb = (lo[k] - p[k]) / d[k], (hi[k] - p[k]) / d[k]
            enter, leave = min(ta, tb), max(ta, tb)
            slack = tol / abs(d[k])
            if enter + slack >= inner[0]:
                stable[0] = False
            if leave - slack <= inner[1]:
                stable[1] = False
    # Acceptance is demanded only when some part of the segment is inside by MORE than the tolerance, which needs a
    # rectangle at least 2 tol thick on both axes.  A zero-area rectangle (a line or a point) can hold nothing "by
    # more than the tolerance", so the statement lets either answer stand there: the unchanged code rejects a
    # diagonal through a point-rectangle when the clipped coordinate comes out 1e-18 beyond it.
    must_accept = inner is not None and robust
    if inner is not None and not must_accept:
        ctx.count("ill_conditioned_acceptance_not_demanded")
    if not accept:
        if must_accept:
            a = geom.lerp(p, q, (inner[0] + inner[1]) / 2)
            ctx.fail("%s rejected, but the point (%s, %s) of the segment is inside the rectangle by more than "
                     "the tolerance" % (what, float(a[0]), float(a[1])), case)
        return seg
    try:
        (ox1, oy1), (ox2, oy2) = seg
        outs = [float(ox1), float(oy1), float(ox2), float(oy2)]
    except Exception:  # pylint: disable=broad-except
        ctx.fail("%s accepted but returned a malformed segment %r" % (what, seg), case)
    if not all(math.isfinite(v) for v in outs):
        ctx.fail("%s returned non-finite coordinates %r" % (what, seg), case)
    o1, o2 = geom.pt((ox1, oy1)), geom.pt((ox2, oy2))
    for label, o in (("first", o1), ("second", o2)):
        if geom.sqdist_point_segment(o, p, q) > tol2:
            ctx.fail("%s: %s returned endpoint (%r, %r) is not on the input segment (tolerance %.3g)"
                     % (what, label, float(o[0]), float(o[1]), float(tol)), case)
        if geom.sqdist_point_rect(o, fxmin, fymin, fxmax, fymax) > tol2:
            ctx.fail("%s: %s returned endpoint (%r, %r) is outside the rectangle (tolerance %.3g)"
                     % (what, label, float(o[0]), float(o[1]), float(tol)), case)
    # orientation: first endpoint corresponds to first
    d_in = (q[0] - p[0], q[1] - p[1])
    d_out = (o2[0] - o1[0], o2[1] - o1[1])
    dot = d_in[0] * d_out[0] + d_in[1] * d_out[1]
    if dot < 0 and dot * dot > tol2 * seglen2:
        ctx.fail("%s returned the segment reversed: %r" % (what, seg), case)
    if inner is not None:
        for i in (0, 1):
            if not stable[i]:
                ctx.count("ill_conditioned_end_not_demanded")
                continue
            a = geom.lerp(p, q, inner[i])
            if geom.sqdist_point_segment(a, o1, o2) > tol2:
                ctx.fail("%s = %r does not cover the inside point (%r, %r) of the input segment"
                         % (what, seg, float(a[0]), float(a[1])), case)
            ctx.count("covered_ends_checked")
    return seg


STABLE = 1000


def nudge(x, n, scale):
    if n == 0:
        return x
    if x == 0.0:
        return n * scale * 2.0 ** -52
    return geom.ulp_step(x, n)


@st.composite
def cases(draw):
    scale = 10.0 ** draw(st.integers(-3, 6))
    offset = draw(st.integers(0, 3)) == 0
    offx = offy = 0.0
    if offset:
        offx = scale * draw(st.integers(-10000, 10000))
        offy = scale * draw(st.integers(-10000, 10000))
    lattice = draw(st.booleans())
    denom = 1 if lattice else draw(st.sampled_from([2, 16, 1 << 20, 1 << 40]))
    rng = 8 * denom

    def coord(off):
        return off + scale * (draw(st.integers(-rng, rng)) / denom)

    xs = sorted([coord(offx), coord(offx)])
    ys = sorted([coord(offy), coord(offy)])
    degenerate = draw(st.integers(0, 9))
    if degenerate == 0:
        xs[1] = xs[0]
    elif degenerate == 1:
        ys[1] = ys[0]
    elif degenerate == 2:
        xs[1], ys[1] = xs[0], ys[0]
    xmin, xmax, ymin, ymax = xs[0], xs[1], ys[0], ys[1]
    used_ulp = [False]

    def endpoint():
        mode = draw(st.sampled_from(["any", "inside", "edge", "edge", "corner", "around", "around"]))
        if mode == "any":
            return [coord(offx), coord(offy)]
        if mode == "inside":
            fx = draw(st.integers(0, 16)) / 16
            fy = draw(st.integers(0, 16)) / 16
            return [xmin + (xmax - xmin) * fx, ymin + (ymax - ymin) * fy]
        if mode == "around":
            gx = draw(st.integers(-32, 48)) / 16
            gy = draw(st.integers(-32, 48)) / 16
            w = (xmax - xmin) or scale
            h = (ymax - ymin) or scale
            return [xmin + w * gx, ymin + h * gy]
        n = draw(st.sampled_from([0, 0, 1, -1, 2, -2]))
        if n:
            used_ulp[0] = True
        if mode == "corner":
            m = draw(st.sampled_from([0, 1, -1]))
            if m:
                used_ulp[0] = True
            return [nudge(draw(st.sampled_from([xmin, xmax])), n, scale),
                    nudge(draw(st.sampled_from([ymin, ymax])), m, scale)]
        if draw(st.booleans()):
            return [nudge(draw(st.sampled_from([xmin, xmax])), n, scale), coord(offy)]
        return [coord(offx), nudge(draw(st.sampled_from([ymin, ymax])), n, scale)]

    p = endpoint()
    q = endpoint()
    if xmax > xmin and ymax > ymin and draw(st.integers(0, 3)) == 0:
        # line through a rectangle corner (within rounding), both ends outside, the far end in the
        # opposite corner region: the configuration that reaches the iteration failsafe
        cx = draw(st.sampled_from([xmin, xmax]))
        cy = draw(st.sampled_from([ymin, ymax]))
        ix = -1 if cx == xmax else 1
        iy = -1 if cy == ymax else 1
        fx = 1 + draw(st.integers(0, 1 << 20)) / (1 << 21)
        fy = 1 + draw(st.integers(0, 1 << 20)) / (1 << 21)
        ox = cx + ix * (xmax - xmin) * fx
        oy = cy + iy * (ymax - ymin) * fy
        back = draw(st.integers(1, 3 << 20)) / (1 << 20)
        p = [cx - back * (ox - cx), cy - back * (oy - cy)]
        q = [ox, oy]
        if draw(st.booleans()):
            p, q = q, p
        return {"seg": [p, q], "rect": [[xmin, ymin], [xmax, ymax]], "ulp": False, "offset": offset,
                "corner": True}
    shape = draw(st.integers(0, 11))
    if shape == 0:
        q = list(p)
    elif shape == 1:
        q[0] = p[0]
    elif shape == 2:
        q[1] = p[1]
    case = {"seg": [p, q], "rect": [[xmin, ymin], [xmax, ymax]], "ulp": used_ulp[0], "offset": offset}
    if draw(st.integers(0, 5)) == 0:
        case["again"] = scale * draw(st.sampled_from([17.0, 0.5, 1000.0]))
    elif draw(st.integers(0, 4)) == 0:
        case["tuples"] = True
    return case


def corner_sweep_body(ctx, case):
    """Bulk sweep of real-valued lines aimed at a rectangle corner with both ends outside - the geometry in which
    the two clips of one endpoint can disagree by an ulp and starve the other endpoint of its clip.  Each line is
    first judged by a cheap float predicate with a generous margin (returned ends inside the rectangle grown by
    1e-6 of the scale and within 1e-6 of the input line); only a suspect goes to the exact oracle, and only the
    exact oracle's verdict is reported."""
    import random
    rng = random.Random(case["seed"])              # the seed itself is drawn by Hypothesis
    n = case["count"]
    suspects = 0
    for _ in range(n):
        scale = 10.0 ** rng.randint(-2, 3)
        xmin, ymin = rng.uniform(-1, 1) * scale, rng.uniform(-1, 1) * scale
        xmax, ymax = xmin + rng.uniform(0.05, 1) * scale, ymin + rng.uniform(0.05, 1) * scale
        cx, cy = rng.choice([(xmin, ymin), (xmin, ymax), (xmax, ymin), (xmax, ymax)])
        ang = rng.uniform(0, math.pi)
        dx, dy = math.cos(ang), math.sin(ang)
        t1, t2 = rng.uniform(0.1, 3) * scale, rng.uniform(0.1, 3) * scale
        # nudge the aim point by a few ulps so that the line passes the corner on either side
        ax = cx + rng.randint(-4, 4) * math.ulp(cx if cx else scale)
        ay = cy + rng.randint(-4, 4) * math.ulp(cy if cy else scale)
        seg = [[ax - t1 * dx, ay - t1 * dy], [ax + t2 * dx, ay + t2 * dy]]
        rect = [[xmin, ymin], [xmax, ymax]]
        try:
            accept, out = plot_utils.clip_segment([list(seg[0]), list(seg[1])], [list(rect[0]), list(rect[1])])
        except Exception:  # pylint: disable=broad-except
            accept, out = None, None
        suspect = accept is None
        if accept:
            margin = 1e-6 * scale
            length = math.hypot(seg[1][0] - seg[0][0], seg[1][1] - seg[0][1])
            for px, py in out:
                off_line = abs((px - seg[0][0]) * (seg[1][1] - seg[0][1]) - (py - seg[0][1]) * (seg[1][0] - seg[0][0]))
                if not (xmin - margin <= px <= xmax + margin and ymin - margin <= py <= ymax + margin) \
                        or off_line > margin * length:
                    suspect = True
        ctx.evaluations += 1
        ctx.classes["corner_sweep_lines"] += 1
        if suspect:
            suspects += 1
            once(ctx, {"seg": seg, "rect": rect, "ulp": True, "offset": False, "corner": True})
    ctx.count("corner_sweep_suspects_sent_to_exact_oracle", suspects)


CORNER_SWEEP = st.fixed_dictionaries({"seed": st.integers(0, 2 ** 32), "count": st.just(2000)})


def lattice_grid():
    """Every segment between lattice points of a 7x7 grid against a fixed 2x2 box and three
    degenerate boxes (exact float arithmetic; all 81 region-code pairs occur)."""
    pts = [(float(x), float(y)) for x in range(-3, 4) for y in range(-3, 4)]
    rects = [[[-1.0, -1.0], [1.0, 1.0]], [[0.0, -1.0], [0.0, 1.0]], [[-1.0, 2.0], [1.0, 2.0]],
             [[1.0, 1.0], [1.0, 1.0]]]
    for rect in rects:
        for p in pts:
            for q in pts:
                case = {"seg": [list(p), list(q)], "rect": rect, "ulp": False, "offset": False}
                if (int(p[0]) + 2 * int(q[1])) % 5 == 0:
                    case["again"] = 10.0
                elif (int(p[1]) + 3 * int(q[0])) % 4 == 0:
                    case["tuples"] = True
                yield case


def run(ctx):
    ctx.exhaustive("lattice-grid", lattice_grid(), body,
                   "all 49x49 lattice segments x {2x2 box, vertical, horizontal, point rectangle}")
    ctx.given("generated", cases(), body, quick=8000, thorough=1200000)
    ctx.given("corner-sweep", CORNER_SWEEP, corner_sweep_body, quick=500, thorough=16000)
    if ctx.thorough and ctx.shard == 0:
        from pbt.fuzz import driver
        driver.run_stage(ctx, "c08_clip", runs=100000, max_len=4096)


def replay(ctx, part, case):
    if "seed" in case and "count" in case:
        corner_sweep_body(ctx, case)
        return
    body(ctx, case)
