"""C04 — an EBB3 connection object latches its first error and then transmits nothing."""
import itertools

import serial
from hypothesis import strategies as st
from hypothesis.stateful import RuleBasedStateMachine, rule, initialize

from pbt import sut
from pbt.sut import PropertyFailure
from pbt.fakes.port import FakePort, SerialFactory, patched, SERIAL_FAMILY, ALL_EXC
from pbt.fakes.board import Board
from pbt import ebb3_methods as em

ID = "C04"
RULE = ("Histories of public calls on EBBMotionWrap against a scripted fake port + simulated board: connect "
        "(good / old firmware / non-EBB / silent / cannot open), disconnect, and any of the 32 request methods "
        "with generated arguments, with a fault (silence, device error line, wrong-name reply, exception on a "
        "write or read) armed at any I/O operation of a call. Invariants after every step: the recorded error "
        "is never replaced; a request entered with no port or with an error recorded writes 0 bytes, does not "
        "raise and returns its documented failure value; no byte is written after the error is recorded "
        "inside a multi-command call. Plus an exhaustive method x fault x method grid. Non-trivial: a history "
        "with >= 1 request issued after an error was latched or after a disconnect; distinct = distinct "
        "histories / grid triples.")
ASSUMPTIONS = [
    "the serial port is a fake that observes every byte; timeouts never elapse in real time",
    "reboot()/bootload() are only faulted with the SerialException family (their handlers name only those; "
    "pyserial wraps OS errors in SerialException)",
]
REQUIRED_CLASSES = ["nontrivial", "latched_then_request", "disconnected_then_request", "fault_in_multi_command",
                    "connect_after_error", "never_connected_request", "warm_history", "close_raises", "flood_of_later_errors"]
QUICK_SHARDS = 4

FAULT_KINDS = ["silence", "errline", "wrongname", "raise_write", "raise_read", "old_firmware", "late_reply"]
MULTI = {"timed_pause", "dio_b_config", "var_write_int32", "var_read_int32", "motors_enable"}


class Sim:
    """Interpreter for a history; the same code runs under Hypothesis and under --replay."""

    def __init__(self, ctx):
        self.ctx = ctx
        self.obj = em.ebb3_motion.EBBMotionWrap()
        self.port = None
        self.history = []
        self.flags = set()
        self.write_after_error = None
        # witness of every error report that goes through the object's own record_error(): a report that is made
        # and later wiped (err back to None) is "recorded, then replaced by nothing"
        self.reported = []
        if hasattr(self.obj, "record_error"):
            orig_record = self.obj.record_error
            sim = self

            def record_error(message, *args, **kwargs):
                sim.reported.append(message)
                return orig_record(message, *args, **kwargs)
            try:
                self.obj.record_error = record_error
            except AttributeError:
                pass

    def fail(self, message):
        raise PropertyFailure(message, case=list(self.history))

    def _new_port(self, board):
        port = FakePort(board)
        sim = self
        orig_write = port.write

        def write(data):
            if sim.obj.err is not None and sim.in_request:
                sim.write_after_error = bytes(data)
            return orig_write(data)
        port.write = write
        return port

    in_request = False

    def step(self, op):
        self.history.append(op)
        obj = self.obj
        err_before = obj.err
        kind = op[0]
        if kind == "connect":
            self._connect(op[1])
        elif kind == "disconnect":
            if len(op) > 1 and op[1] and isinstance(obj.port, FakePort):
                obj.port.close_raises = op[1]          # the board dropped off the bus: close() raises
                self.flags.add("close_raises")
            try:
                obj.disconnect()
            except Exception as exc:  # pylint: disable=broad-except
                self.fail("disconnect() raised %s: %s" % (type(exc).__name__, exc))
            if obj.port is not None:
                self.fail("disconnect() left a port object in place")
        elif kind == "call":
            self._call(op[1], op[2], op[3])
        else:
            raise sut.HarnessError("unknown op %r" % (op,))
        if err_before is not None and obj.err is not err_before and obj.err != err_before:
            self.fail("recorded error was replaced: %r -> %r" % (err_before, obj.err))
        if err_before is not None and obj.err is None:
            self.fail("recorded error was cleared")
        if self.reported and obj.err is None:
            self.fail("an error was reported during this history (%r) but the object shows no recorded error "
                      "afterwards: the record was wiped" % (self.reported[0],))

    def _connect(self, how):
        obj = self.obj
        if obj.err is not None:
            self.flags.add("connect_after_error")
        if how.startswith("good"):
            board = Board("ebb3", version="3.0.2")
        elif how == "old":
            board = Board("ebb3", version="2.8.1")
        elif how == "nonebb":
            board = _Babbler()
        else:
            board = None                       # silent device (also used for "cannot_open")
        port = self._new_port(board)
        fail = {}
        if how.startswith("cannot_open"):
            # plain failure, or the port is held by another program (errno EBUSY / EACCES, the Windows wording)
            fail = {em.PORT_NAME: {"cannot_open": "SerialException", "cannot_open_busy": "SerialException(EBUSY)",
                                   "cannot_open_eacces": "SerialException(EACCES)",
                                   "cannot_open_denied": "SerialException(denied)"}[how]}
        name = None
        if how in ("good_second", "good_by_name"):
            # a second board on another device node, asked for by name (or the first one, by its device name)
            name = SECOND_PORT if how == "good_second" else em.PORT_NAME
            port.port = port.name = port.portstr = name
        factory = SerialFactory({name or em.PORT_NAME: port}, fail=fail)
        # "absent": the board is not on the bus (unplugged, or still re-enumerating after a reboot)
        listed = {"absent": [], "foreign_only": [("COM1", "USB Serial Device (COM1)", "USB VID:PID=1A86:7523")],
                  "good_second": list(em.COMPORTS_ONE) + [(SECOND_PORT, "EiBotBoard",
                                                           "USB VID:PID=04D8:FD92 LOCATION=1-2")]}.get(
            how, em.COMPORTS_ONE)
        with patched((em.ebb3_serial, "comports", lambda: list(listed)),
                     (serial, "Serial", factory)):
            try:
                if name is None:
                    obj.connect()
                else:
                    obj.connect(name)
            except Exception as exc:  # pylint: disable=broad-except
                self.fail("connect(%s) raised %s: %s" % (how, type(exc).__name__, exc))
        self.port = obj.port if isinstance(obj.port, FakePort) else self.port

    def _call(self, name, args, faults):
        obj = self.obj
        _strategy, _sample, fail_value, _kind = em.METHODS[name]
        blocked = obj.port is None or obj.err is not None
        state = "no port" if obj.port is None else "error recorded"
        port = obj.port if isinstance(obj.port, FakePort) else None
        if blocked:
            if obj.err is not None:
                self.flags.add("latched_then_request")
            elif self.port is not None:
                self.flags.add("disconnected_then_request")
            else:
                self.flags.add("never_connected_request")
        # every port this object ever had must stay silent when the call is blocked
        watched = [p for p in {id(self.port): self.port, id(port): port}.values() if p is not None]
        before = [len(p.writes) for p in watched]
        if port is not None:
            port.begin_call({int(k): tuple(v) for k, v in (faults or {}).items()} if not blocked else None)
        self.write_after_error = None
        self.in_request = True
        raised = None
        result = None
        try:
            result = getattr(obj, name)(*args)
        except Exception as exc:  # pylint: disable=broad-except
            raised = exc
        finally:
            self.in_request = False
        wrote = sum(len(p.writes) - b for p, b in zip(watched, before))
        # empty reads stand for time passing: once the call is over they are gone, and a reply that arrived too late
        # is what sits at the head of the input buffer
        for p_ in watched:
            while p_.rx and p_.rx[0] == b"":
                p_.rx.popleft()
        if blocked:
            if raised is not None:
                self.fail("%s%r with %s raised %s: %s" % (name, tuple(args), state,
                                                           type(raised).__name__, raised))
            if wrote:
                self.fail("%s%r with %s wrote %d message(s): %r" %
                          (name, tuple(args), state, wrote, [p.writes[-1] for p in watched if p.writes][-1]))
            if not em.same_value(result, fail_value):
                self.fail("%s%r with %s returned %r, documented failure value is %r" %
                          (name, tuple(args), state, result, fail_value))
        else:
            if self.write_after_error is not None:
                self.fail("%s%r wrote %r after the error %r had been recorded in the same call" %
                          (name, tuple(args), self.write_after_error, obj.err))
            if faults and name in MULTI:
                self.flags.add("fault_in_multi_command")
            if raised is not None:
                self.ctx.count("faulted_call_raised(C05 territory)")


class _Babbler:
    """A device that answers, but is not an EBB."""

    def respond(self, data):
        return [b"Arduino Uno ready\r\n"]


# --------------------------------------------------------------------- strategies
def fault_action(kind, draw_exc_w, draw_exc_r):
    if kind == "silence":
        return ("silence",)
    if kind == "errline":
        return ("errline",)
    if kind == "wrongname":
        return ("wrongname",)
    if kind == "raise_write":
        return ("raise", draw_exc_w)
    return ("raise", draw_exc_r)


@st.composite
def call_ops(draw, with_fault_prob=50):
    name = draw(st.sampled_from(sorted(em.METHODS)))
    if draw(st.booleans()):
        args = list(em.METHODS[name][1])     # the fixed sample: repeated values and slots collide across calls
    else:
        args = list(draw(em.METHODS[name][0]))
    faults = {}
    if draw(st.integers(0, 99)) < with_fault_prob:
        idx = draw(st.integers(0, 9))
        excs = SERIAL_FAMILY if name in ("reboot", "bootload") else ALL_EXC
        kind = draw(st.sampled_from(["silence", "errline", "wrongname", "raise", "late"]))
        if kind == "raise":
            faults[str(idx)] = ["raise", draw(st.sampled_from(excs))]
        elif kind == "late":
            # the reply is late: 30 empty reads come first, so the request times out and the reply then sits
            # unread in the port's input buffer
            faults[str(min(idx, 1))] = ["empty", 30]
        else:
            faults[str(idx)] = [kind]
    return ["call", name, args, faults]


class Machine(RuleBasedStateMachine):
    ctx = None

    def __init__(self):
        super().__init__()
        self.sim = Sim(self.ctx)

    def _step(self, op):
        try:
            try:
                self.sim.step(op)
            except sut.Runaway as runaway:
                self.sim.fail("the call never returned: %s" % runaway)
        except PropertyFailure as exc:
            self.ctx.note_failure(exc)
            raise

    @rule(how=st.sampled_from(["good", "good", "good", "old", "nonebb", "silent", "cannot_open", "absent",
                               "foreign_only", "good_second", "good_by_name", "cannot_open_busy",
                               "cannot_open_eacces", "cannot_open_denied"]))
    def connect(self, how):
        self._step(["connect", how])

    @rule(exc=st.sampled_from([None, None] + SERIAL_FAMILY))
    def disconnect(self, exc):
        self._step(["disconnect", exc])

    @rule(op=call_ops())
    def call(self, op):
        self._step(op)

    @rule(op=call_ops(with_fault_prob=0))
    def call_clean(self, op):
        self._step(op)

    def teardown(self):
        sim = self.sim
        calls = [op for op in sim.history if op[0] == "call"]
        nontrivial = bool({"latched_then_request", "disconnected_then_request"} & sim.flags)
        self.ctx.record(sim.history, sim.flags | ({"has_calls"} if calls else set()), nontrivial)


def grid():
    """method1 x fault kind x method2, each on a fresh connected object (fixed sample arguments)."""
    names = sorted(em.METHODS)
    for m1, kind, m2 in itertools.product(names, FAULT_KINDS, names):
        yield [m1, kind, m2]
    for m in names:
        yield [None, "never_connected", m]


def grid_body(ctx, case):
    m1, kind, m2 = case
    sim = Sim(ctx)
    if kind == "never_connected":
        sim.step(["call", m2, list(em.METHODS[m2][1]), {}])
        ctx.record(case, sim.flags, True)
        return
    if kind == "old_firmware":
        sim.step(["connect", "old"])
    else:
        sim.step(["connect", "good"])
        excs = "SerialException"
        fault = {"silence": ["silence"], "errline": ["errline"], "wrongname": ["wrongname"],
                 "raise_write": ["raise", excs], "raise_read": ["raise", excs], "late_reply": ["empty", 30]}[kind]
        idx = 1 if kind in ("raise_read", "late_reply") else 0
        if kind in ("errline", "wrongname"):
            idx = 1                               # replace the line returned by the first read
        sim.step(["call", m1, list(em.METHODS[m1][1]), {str(idx): fault}])
    latched = sim.obj.err is not None or sim.obj.port is None
    sim.step(["call", m2, list(em.METHODS[m2][1]), {}])
    ctx.record(case, sim.flags, nontrivial=latched)
    if latched:
        ctx.count("grid_pairs_with_second_call_blocked")


WARM_FAULTS = {"silence": ["0", ["silence"]], "errline": ["1", ["errline"]], "wrongname": ["1", ["wrongname"]],
               "late_reply": ["1", ["empty", 30]],
               "raise_write": ["0", ["raise", "SerialException"]], "raise_read": ["1", ["raise", "OSError"]]}


def warm_grid():
    """Every request method once successfully (so anything the object remembers is populated), then a fault
    of each kind in each of several carrier methods, then every request method once more."""
    names = sorted(em.METHODS)
    for kind in WARM_FAULTS:
        for carrier in ("query", "command", "var_read", "query_steps", "pen_lower"):
            for m2 in names:
                yield ["warm", kind, carrier, m2]


def warm_body(ctx, case):
    _tag, kind, carrier, m2 = case
    sim = Sim(ctx)
    sim.step(["connect", "good"])
    for name in sorted(em.METHODS):
        if name in ("reboot", "bootload"):
            continue
        sim.step(["call", name, list(em.METHODS[name][1]), {}])
    if sim.obj.err is not None:
        raise sut.HarnessError("warm-up recorded an error on a conforming board: %r" % (sim.obj.err,))
    idx, action = WARM_FAULTS[kind]
    sim.step(["call", carrier, list(em.METHODS[carrier][1]), {idx: action}])
    latched = sim.obj.err is not None
    sim.step(["call", m2, list(em.METHODS[m2][1]), {}])
    sim.step(["call", m2, list(em.METHODS[m2][1]), {}])
    ctx.record(case, sim.flags | {"warm_history"}, nontrivial=latched)


def vocabulary_grid():
    """The latch must hold for every request text, not only for the sample ones: each command / query text of the
    shared vocabulary after an error, after a disconnect and on a never-connected object."""
    for state in ("silence", "errline", "late_reply", "disconnected", "never_connected"):
        for text in em.COMMAND_TEXTS:
            yield ["vocab", state, "command", text]
        for text in em.QUERY_TEXTS:
            yield ["vocab", state, "query", text]


def vocabulary_body(ctx, case):
    _tag, state, method, text = case
    sim = Sim(ctx)
    if state != "never_connected":
        sim.step(["connect", "good"])
        if state == "disconnected":
            sim.step(["disconnect", None])
        else:
            idx, action = WARM_FAULTS[state]
            if state == "late_reply":
                sim.step(["call", "command", ["CS"], {idx: action}])      # a command times out; its echo arrives late
            else:
                sim.step(["call", "query", ["QS"], {idx: action}])
    sim.step(["call", method, [text], {}])
    sim.step(["call", method, [text], {}])
    ctx.record(case, sim.flags | {"vocabulary"}, nontrivial=True)


def flood_grid():
    for kind in WARM_FAULTS:
        for how in ("silent", "cannot_open", "nonebb", "old", "cannot_open_busy", "cannot_open_eacces",
                    "cannot_open_denied", "absent"):
            yield ["flood", kind, how]


def flood_body(ctx, case):
    """An error is latched, then dozens of further failures are reported (an application polling connect() with
    no usable board): the first message must survive all of them."""
    _tag, kind, how = case
    sim = Sim(ctx)
    sim.step(["connect", "good"])
    idx, action = WARM_FAULTS[kind]
    sim.step(["call", "query", ["QS"], {idx: action}])
    first = sim.obj.err
    sim.step(["disconnect", None])
    for _ in range(40):
        sim.step(["connect", how])
        sim.step(["call", "query_statusbyte", [], {}])
    if first is None:
        # this tree rode the fault out (e.g. it waits through more empty reads than the 30 of `late_reply`): no
        # error was recorded, so there is nothing to preserve - how long a request waits is not C04's business
        ctx.count("fault_did_not_latch")
        ctx.record(case, sim.flags, nontrivial=False)
        return
    if sim.obj.err != first:
        sim.fail("after 40 further failed connects the recorded error is %r, the first one was %r"
                 % (sim.obj.err, first))
    ctx.record(case, sim.flags | {"flood_of_later_errors"}, nontrivial=True)


FAILED_CONNECTS = ("absent", "foreign_only", "silent", "cannot_open", "nonebb", "old", "cannot_open_busy",
                   "cannot_open_denied")
SECOND_PORT = "/dev/ttyACM1"


def reconnect_grid():
    for kind in WARM_FAULTS:
        for last in ("good", "good_second", "good_by_name"):
            # straight back to the same board, to another board on another device node, or by device name
            yield ["reconnect", kind, [], last]
        for first in FAILED_CONNECTS:
            yield ["reconnect", kind, [first]]
            yield ["reconnect", kind, [first], "good_second"]
            for second in FAILED_CONNECTS:
                yield ["reconnect", kind, [first, second]]


def reconnect_body(ctx, case):
    """An error is latched, the application disconnects, polls connect() while the board is away or unusable (one
    or two failed attempts of any kind) and connects again once it is back: the object still carries its first
    error, so every request stays silent and fails."""
    _tag, kind, failed = case[:3]
    sim = Sim(ctx)
    sim.step(["connect", "good"])
    idx, action = WARM_FAULTS[kind]
    sim.step(["call", "xy_move", [100, -50, 200], {idx: action}])
    first = sim.obj.err
    sim.step(["disconnect", None])
    for how in failed:
        sim.step(["connect", how])
        if how == "old":
            sim.step(["disconnect", None])
    sim.step(["connect", case[3] if len(case) > 3 else "good"])
    for name in ("command", "query", "xy_move", "var_write", "query_steps", "pen_raise"):
        sim.step(["call", name, list(em.METHODS[name][1]), {}])
    if first is None:
        ctx.count("fault_did_not_latch")
        ctx.record(case, sim.flags, nontrivial=False)
        return
    if sim.obj.err != first:
        sim.fail("after reconnecting the recorded error is %r, the first one was %r" % (sim.obj.err, first))
    ctx.record(case, sim.flags | {"reconnect_after_failed_attempts"}, nontrivial=True)


def close_grid():
    for exc in [None] + SERIAL_FAMILY:
        for m2 in sorted(em.METHODS):
            yield ["close", exc, m2]


def close_body(ctx, case):
    _tag, exc, m2 = case
    sim = Sim(ctx)
    sim.step(["connect", "good"])
    sim.step(["call", "query_statusbyte", [], {}])
    sim.step(["disconnect", exc])
    sim.step(["call", m2, list(em.METHODS[m2][1]), {}])
    ctx.record(case, sim.flags, nontrivial=True)


def run(ctx):
    ctx.exhaustive("vocabulary-grid", vocabulary_grid(), vocabulary_body,
                   "every command / query text of the vocabulary after a latched error (3 kinds), after a disconnect "
                   "and on a never-connected object")
    ctx.exhaustive("flood-grid", flood_grid(), flood_body,
                   "6 fault kinds latch an error, then 40 failed connects of 4 kinds: the first message survives")
    ctx.exhaustive("reconnect-grid", reconnect_grid(), reconnect_body,
                   "6 fault kinds latch an error; disconnect; 1 or 2 failed connects of 6 kinds (board absent, only a "
                   "foreign device listed, silent, cannot open, not an EBB, old firmware); a good connect; 6 requests")
    ctx.exhaustive("close-grid", close_grid(), close_body,
                   "connect, one request, disconnect with close() succeeding / raising each serial exception, then "
                   "each of the 32 methods")
    ctx.exhaustive("warm-grid", warm_grid(), warm_body,
                   "30 successful calls (every method, fixed arguments), then 6 fault kinds x 5 carrier methods, "
                   "then each of the 32 methods twice")
    unknown = em.unknown_public_methods()
    ctx.notes["public_methods_not_in_table"] = unknown
    ctx.exhaustive("method-fault-method-grid", grid(), grid_body,
                   "32 request methods x 7 fault kinds x 32 request methods + 32 never-connected calls")
    machine = type("ErrorLatchMachine", (Machine,), {"ctx": ctx})
    ctx.machine("histories", machine, quick=2000, thorough=80000, steps=25)


def replay(ctx, part, case):
    if case and case[0] == "warm":
        warm_body(ctx, case)
        return
    if case and case[0] == "vocab":
        vocabulary_body(ctx, case)
        return
    if case and case[0] == "flood":
        flood_body(ctx, case)
        return
    if case and case[0] == "reconnect":
        reconnect_body(ctx, case)
        return
    if case and case[0] == "close":
        close_body(ctx, case)
        return
    if case and not isinstance(case[0], list):       # a grid triple; failures carry histories
        grid_body(ctx, case)
        return
    sim = Sim(ctx)
    for op in case:
        sim.step(op)
    ctx.record(case, sim.flags, bool({"latched_then_request", "disconnected_then_request"} & sim.flags))
