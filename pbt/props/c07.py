"""C07 — legacy serial primitives: one write, aligned replies, no exception on faults."""
import inspect

from hypothesis import strategies as st
from hypothesis.stateful import RuleBasedStateMachine, rule

from pbt import sut
from pbt.sut import PropertyFailure
from pbt.fakes import quiet  # noqa: F401
from pbt.fakes.port import FakePort, ALL_EXC, ERROR_LINES
from pbt.fakes.board import Board, NO_OK_QUERIES

ID = "C07"
RULE = ("Histories of ebb_serial.command / ebb_serial.query calls against a conforming legacy-syntax device "
        "model whose data lines carry unique tokens: OK-terminated queries (QS QB QP QL QC QT QN QR QU), the "
        "documented no-OK queries (A I MR PI QM QG V, upper/lower case, with/without arguments) and commands, "
        "each reply line preceded by 0..100 empty reads (weighted on 0, 1, 99, 100); or a faulty step "
        "(silence, error line, exception at the write or at read j). After every step: exactly one write equal "
        "to the request bytes, no exception, query returned a str; on conforming steps the returned text is "
        "this request's own data line and nothing is left unread; when the link raises, query returns the data "
        "line if it had already been read and '' otherwise. Non-trivial: a step with >= 1 empty read or a "
        "fault that is followed by a further step; distinct = distinct histories.")
ASSUMPTIONS = [
    "after a faulty step no alignment is claimed (the statement claims it only against a conforming board); "
    "the harness discards pending input before the next step",
    "replies are ASCII",
]
REQUIRED_CLASSES = ["nontrivial", "ok_query", "no_ok_query", "command", "empties=100", "empties>=1",
                    "fault_silence", "fault_errline", "fault_raise_write", "fault_raise_read", "no_port",
                    "lowercase_no_ok", "first_read_empty", "fault_after_data_line", "fault_before_data_line",
                    "request_longer_than_64_bytes", "data_line_begins_with_OK", "blank_data_line",
                    "two_faults_in_one_exchange"]
QUICK_SHARDS = 4

ebb_serial = sut.load("ebb_serial")

OK_QUERIES = ["QS\r", "QB\r", "QP\r", "QL\r", "QC\r", "QT\r", "QT\r", "QT\r", "QN\r", "QR\r", "QU,1\r", "qs\r",
              "QL,3\r"]
NOOK_QUERIES = ["A\r", "I\r", "MR\r", "PI,B,3\r", "QM\r", "QG\r", "V\r", "a\r", "i\r", "mr\r", "pi,c,1\r",
                "qm\r", "qg\r", "v\r", "PI,E,0\r", " V\r"]
COMMANDS = ["EM,1,1\r", "SM,100,10,-10\r", "SP,1,100\r", "TP\r", "SC,4,12000\r", "SL,5\r", "XM,10,1,1\r",
            "CS\r", "RB\r", "PO,B,3,1\r", " EM,0,0\r", "SM,10,0,0\r\n",
            # full-range requests are longer than a 64-byte USB packet; still one write
            "LM,2147483647,-2147483647,-2147483647,2147483647,2147483647,-2147483647,3\r",
            "LM,-2147483647,2147483647,2147483647,-2147483647,-2147483647,2147483647\r",
            "T3,4294967295,-2147483647,2147483647,-2147483647,2147483647,-2147483647,2147483647,3\r",
            "SM,16777215,-8388607,8388607\r", "ST,0123456789abcdef\r"]


class Sim:
    def __init__(self, ctx):
        self.ctx = ctx
        self.board = Board("legacy", version="2.8.1", tokens=True, lenient=True)
        self.port = FakePort(self.board)
        self.history = []
        self.flags = set()
        self.pending_interest = False     # a delayed/faulty step happened and awaits a follow-up
        self.followed = False

    def fail(self, message):
        raise PropertyFailure(message, case=list(self.history))

    def step(self, op):
        self.history.append(op)
        kind, text, empties, fault = op[:4]
        if self.pending_interest:
            self.followed = True
        port, board = self.port, self.board
        if kind == "noport":
            try:
                r1 = ebb_serial.query(None, text)
                r2 = ebb_serial.command(None, text)
                r3 = ebb_serial.query(port, None)
                r4 = ebb_serial.command(port, None)
            except Exception as exc:  # pylint: disable=broad-except
                self.fail("request with no port / no text raised %s: %s" % (type(exc).__name__, exc))
            if (r1, r2, r3, r4) != (None, None, None, None):
                self.fail("request with no port / no text returned %r" % ((r1, r2, r3, r4),))
            self.flags.add("no_port")
            return
        board.empties = list(empties)
        produced = []
        orig = board.respond

        def spy(data):
            lines = orig(data)
            produced.extend(lines)
            return lines
        board.respond = spy
        faults = {}
        if fault:
            faults[int(fault[0])] = tuple(fault[1])
        if len(op) > 4 and op[4]:
            faults[int(op[4][0])] = tuple(op[4][1])       # a second fault later in the same exchange
            self.flags.add("two_faults_in_one_exchange")
        port.begin_call(faults)
        name = text.split(",")[0].strip().lower()
        is_query = kind == "query"
        # the trailing `verbose` flag of the pinned signatures is spelled three ways in turn (left out, positional
        # False, keyword False); a signature that does not take the spelling gets the flag left out
        fn = ebb_serial.query if is_query else ebb_serial.command
        extra, kwargs = [((), {}), ((False,), {}), ((), {"verbose": False})][len(self.history) % 3]
        try:
            inspect.signature(fn).bind(port, text, *extra, **kwargs)
        except (TypeError, ValueError):
            extra, kwargs = (), {}
        try:
            result = fn(port, text, *extra, **kwargs)
        except Exception as exc:  # pylint: disable=broad-except
            self.fail("%s(%r) raised %s: %s (empties %r, fault %r)"
                      % (kind, text, type(exc).__name__, exc, empties, fault))
        finally:
            board.respond = orig
        what = "%s(%r) with empties %r, fault %r" % (kind, text, empties, fault)
        attempts = port.write_attempts - port.attempts_mark
        if attempts != 1:
            self.fail("%s: write attempted %d times" % (what, attempts))
        wrote = port.written_in_call()
        write_raised = bool(fault) and int(fault[0]) == 0 and fault[1][0] == "raise"
        if not write_raised and wrote != [text.encode("ascii")]:
            self.fail("%s: wrote %r, expected exactly the request bytes" % (what, wrote))
        if is_query and not isinstance(result, str):
            self.fail("%s returned %r (%s), expected text" % (what, result, type(result).__name__))
        fault_hit = bool(fault) and int(fault[0]) not in port.faults
        if is_query:
            self.flags.add("no_ok_query" if name in NO_OK_QUERIES else "ok_query")
            if name in NO_OK_QUERIES and text.strip() != text.strip().upper():
                self.flags.add("lowercase_no_ok")
        else:
            self.flags.add("command")
        if empties and max(empties) >= 1:
            self.flags.add("empties>=1")
            if empties[0] >= 1:
                self.flags.add("first_read_empty")
            if max(empties) == 100:
                self.flags.add("empties=100")
        if fault_hit:
            self.flags.add("fault_" + (fault[1][0] if fault[1][0] != "raise" else
                                       ("raise_write" if int(fault[0]) == 0 else "raise_read")))
            if fault[1][0] == "silence" and is_query and int(fault[0]) <= 1 and result != "":
                self.fail("%s: nothing arrived but query returned %r, expected ''" % (what, result))
            if fault[1][0] == "errline" and len(op) > 4 and op[4]:
                pass                                   # error reply and then a dead link: only "never raises" applies
            if fault[1][0] == "raise" and is_query:
                # what had arrived when the link failed decides the answer: the request's data line if it
                # was already read, otherwise the empty string
                reads = [entry[1] for entry in port.log[port.log_mark:] if entry[0] == "r"]
                arrived = next((line for line in reads if line != b""), None)
                expected = arrived.decode("ascii") if arrived is not None else ""
                self.flags.add("fault_after_data_line" if arrived is not None else "fault_before_data_line")
                if result != expected:
                    self.fail("%s: the link failed %s, but query returned %r, expected %r"
                              % (what, "after this request's data line had been read" if arrived is not None
                                 else "before anything arrived", result, expected))
            port.reset_input_buffer()          # no alignment claimed after a fault
            port.silent = False
            self.pending_interest = True
            return
        if fault:
            port.faults.clear()
        # conforming step: the reply belongs to this request and nothing is left behind
        data_lines = [l for l in produced if l != b""]
        if len(text) > 64:
            self.flags.add("request_longer_than_64_bytes")
        if is_query:
            expected = data_lines[0].decode("ascii") if data_lines else ""
            if expected.startswith("OK"):
                self.flags.add("data_line_begins_with_OK")
            if expected.strip() == "" and expected != "":
                self.flags.add("blank_data_line")
            if result != expected:
                self.fail("%s returned %r; the board's reply to this request was %r"
                          % (what, result, expected))
        if port.rx:
            self.fail("%s: %d line(s) left unread: %r" % (what, len(port.rx), list(port.rx)[:3]))
        if empties and max(empties) >= 1:
            self.pending_interest = True


EMPT = st.one_of(st.sampled_from([0, 0, 0, 1, 2, 99, 100]), st.integers(0, 100))


@st.composite
def ops(draw):
    kind = draw(st.sampled_from(["query", "query", "query", "command", "noport"]))
    if kind == "noport":
        return ["noport", draw(st.sampled_from(COMMANDS + OK_QUERIES)), [], None]
    if kind == "command":
        text = draw(st.sampled_from(COMMANDS))
    else:
        text = draw(st.sampled_from(OK_QUERIES + NOOK_QUERIES))
    empties = [draw(EMPT), draw(EMPT)]
    fault = None
    if draw(st.integers(0, 3)) == 0:
        fk = draw(st.sampled_from(["silence", "errline", "raise"]))
        if fk == "raise":
            idx = draw(st.one_of(st.just(0), st.integers(1, 6), st.just(empties[0] + 1),
                                 st.just(empties[0] + 2)))
            fault = [idx, ["raise", draw(st.sampled_from(ALL_EXC))]]
        elif fk == "silence":
            fault = [draw(st.sampled_from([0, 1])), ["silence"]]
        else:
            fault = [1, ["errline", draw(st.sampled_from(ERROR_LINES))]]
            if draw(st.booleans()):
                # the device answers with an error line and the link then fails while waiting for the OK
                second = [draw(st.integers(2, 5)), ["raise", draw(st.sampled_from(ALL_EXC))]]
                return [kind, text, [0, draw(st.sampled_from([0, 1, 2]))], fault, second]
    return [kind, text, empties, fault]


class Machine(RuleBasedStateMachine):
    ctx = None

    def __init__(self):
        super().__init__()
        self.sim = Sim(self.ctx)

    @rule(op=ops())
    def request(self, op):
        try:
            try:
                self.sim.step(op)
            except sut.Runaway as runaway:
                self.sim.fail("the call never returned: %s" % runaway)
        except PropertyFailure as exc:
            self.ctx.note_failure(exc)
            raise

    def teardown(self):
        self.ctx.record(self.sim.history, self.sim.flags, nontrivial=self.sim.followed)


def grid():
    """Every query/command kind x empties in {0,1,99,100} before each line, followed by a probe query."""
    for text in OK_QUERIES + NOOK_QUERIES + COMMANDS:
        kind = "command" if text in COMMANDS else "query"
        for e1 in (0, 1, 99, 100):
            for e2 in (0, 1, 100):
                yield [[kind, text, [e1, e2], None], ["query", "QS\r", [0, 0], None],
                       ["query", "V\r", [1, 0], None]]
        for fault in ([0, ["silence"]], [1, ["errline"]], [0, ["raise", "SerialException"]],
                      [1, ["raise", "OSError"]], [2, ["raise", "SerialException"]],
                      [3, ["raise", "SerialException"]], [3, ["raise", "RuntimeError"]], [4, ["raise", "OSError"]]):
            yield [[kind, text, [1, 0], fault], ["query", "QB\r", [0, 0], None]]
        for line in ERROR_LINES:
            yield [[kind, text, [0, 0], [1, ["errline", line]]], ["query", "QB\r", [0, 0], None]]
        for second in ([2, ["raise", "SerialException"]], [3, ["raise", "OSError"]], [2, ["raise", "RuntimeError"]]):
            yield [[kind, text, [0, 1], [1, ["errline"]], second], ["query", "QB\r", [0, 0], None]]


def grid_body(ctx, case):
    sim = Sim(ctx)
    for op in case:
        sim.step(op)
    ctx.record(case, sim.flags, nontrivial=sim.followed)


def run(ctx):
    ctx.exhaustive("grid", grid(), grid_body,
                   "37 request kinds x {0,1,99,100} x {0,1,100} empties + 8 fault placements, each followed by probes")
    machine = type("LegacySerialMachine", (Machine,), {"ctx": ctx})
    ctx.machine("histories", machine, quick=1200, thorough=80000, steps=20)


def replay(ctx, part, case):
    grid_body(ctx, case)
