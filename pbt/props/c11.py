"""C11 — viewBox scaling follows the SVG preserveAspectRatio rules."""
import itertools
from fractions import Fraction as F

from hypothesis import strategies as st

from pbt import sut
from pbt.sut import call_sut

ID = "C11"
RULE = ("(min-x, min-y, width, height) x (doc width, doc height) as round numbers and floats (negative / zero / "
        "positive origins; document wider, taller or exactly as wide as the viewBox) x {none + 9 aligns} x "
        "{meet, slice, absent} x {defer or not} x case variants x separator variants (space, tab, newline, "
        "comma for the viewBox, repeated separators), attribute absent/empty/'defer' alone; plus malformed "
        "viewBoxes and non-positive sizes. Oracle: SVG 1.1 section 7.8 evaluated in exact rationals, compared "
        "through x -> (x + o_x) * s_x at both viewBox edges with relative tolerance 1e-9. Exhaustive grid over "
        "10 aligns x 3 meetOrSlice x 2 defer x 3 aspect classes x 3 case styles. Non-trivial: aspect preserved "
        "with unequal axis ratios (the alignment matters). Distinct = distinct argument tuples.")
ASSUMPTIONS = [
    "number tokens follow the SVG number grammar (strings Python's float() accepts but SVG does not, such as "
    "nan, inf, 1_0, are not generated); a 5th viewBox token and unknown align names are not generated",
    "preserveAspectRatio tokens are separated by XML whitespace (the SVG grammar); commas are used only in "
    "the viewBox",
]
REQUIRED_CLASSES = ["nontrivial", "none", "meet", "slice", "defer", "equal_aspect", "doc_wider", "doc_taller",
                    "par_absent", "malformed_viewbox", "nonpositive", "tab_or_newline_separator",
                    "multi_space", "case_variant", "negative_origin", "near_equal_aspect", "both_sizes_of_an_axis_nonpositive", "alignment_offset_exactly_zero"]
QUICK_SHARDS = 4

plot_utils = sut.load("plot_utils")
OPTION_PROBES = [(plot_utils.vb_scale, ["v_b", "p_a_r", "doc_width", "doc_height"],
                  ["0 0 100 50", "xMaxYMax slice", 200, 200])]


ALIGNS = ["xMinYMin", "xMidYMin", "xMaxYMin", "xMinYMid", "xMidYMid", "xMaxYMid",
          "xMinYMax", "xMidYMax", "xMaxYMax"]


def fnum(text):
    """Exact value of a number token as the implementation will see it (a double)."""
    return F(float(text))


def reference(vb, align, mos, dw, dh):
    """SVG 1.1 7.8: returns (sx, sy, tx, ty) with x -> x*sx + tx, exact rationals."""
    vbx, vby, vbw, vbh = vb
    if align == "none":
        sx, sy = dw / vbw, dh / vbh
        return sx, sy, -vbx * sx, -vby * sy
    rx, ry = dw / vbw, dh / vbh
    s = min(rx, ry) if mos == "meet" else max(rx, ry)
    low = align.lower()
    fx = {"xmin": F(0), "xmid": F(1, 2), "xmax": F(1)}[low[:4]]
    fy = {"ymin": F(0), "ymid": F(1, 2), "ymax": F(1)}[low[4:]]
    tx = -vbx * s + (dw - vbw * s) * fx
    ty = -vby * s + (dh - vbh * s) * fy
    return s, s, tx, ty


def body(ctx, case):
    vb_text, par_text = case["vb"], case["par"]
    dw_arg, dh_arg = case["dw"], case["dh"]
    sem = case["sem"]                      # what the texts mean, decided by the generator
    classes = set(case.get("tags", []))
    got = call_sut(plot_utils.vb_scale, vb_text, par_text, dw_arg, dh_arg)
    what = "vb_scale(%r, %r, %r, %r)" % (vb_text, par_text, dw_arg, dh_arg)
    try:
        s_x, s_y, o_x, o_y = (F(v) for v in got)
    except Exception:  # pylint: disable=broad-except
        ctx.record(case, classes, False)
        ctx.fail("%s returned %r" % (what, got), case)
    if sem["kind"] == "identity":
        classes.add(sem["why"])
        ctx.record(case, classes, False)
        if (s_x, s_y, o_x, o_y) != (1, 1, 0, 0):
            ctx.fail("%s = %r, expected the identity transform (1, 1, 0, 0) for %s"
                     % (what, got, sem["why"]), case)
        return
    vb = tuple(fnum(t) for t in sem["vb"])
    dw, dh = F(float(dw_arg)), F(float(dh_arg))
    align, mos = sem["align"], sem["mos"]
    sx, sy, tx, ty = reference(vb, align, mos, dw, dh)
    rx, ry = dw / vb[2], dh / vb[3]
    classes.add("none" if align == "none" else mos)
    classes.add("equal_aspect" if rx == ry else ("doc_wider" if rx > ry else "doc_taller"))
    if vb[0] < 0 or vb[1] < 0:
        classes.add("negative_origin")
    ctx.record(case, classes, nontrivial=align != "none" and rx != ry)
    span = max(abs(dw), abs(dh), abs(vb[2] * sx), abs(vb[3] * sy), abs(tx), abs(ty))
    tol = span / 10 ** 9
    for axis, lo, size, s_ref, t_ref, s_got, o_got in (("x", vb[0], vb[2], sx, tx, s_x, o_x),
                                                       ("y", vb[1], vb[3], sy, ty, s_y, o_y)):
        for edge, v in (("min", lo), ("max", lo + size)):
            want = v * s_ref + t_ref
            have = (v + o_got) * s_got
            if abs(want - have) > tol:
                ctx.fail("%s = %r maps the viewBox %s-%s edge to %.12g; SVG 1.1 prescribes %.12g "
                         "(align %s, %s)" % (what, tuple(float(v) for v in got), axis, edge, float(have),
                                             float(want), align, mos), case)


# ------------------------------------------------------------------ generators
NUM_ROUND = st.sampled_from(["0", "1", "10", "100", "297", "210", "50", "8.5", "11", "0.5", "1e2", "2.5E1",
                                 "-10", "-0.25", "3", "7", ".5", "4.", "+6"])
POS_ROUND = st.sampled_from(["1", "10", "100", "297", "210", "50", "8.5", "11", "0.5", "1e2", "2.5E1", "3", "7",
                                 ".5", "4.", "+6", "1e-3", "1000"])


@st.composite
def number(draw, positive=False):
    if draw(st.booleans()):
        return draw(POS_ROUND if positive else NUM_ROUND)
    mant = draw(st.integers(1, 99999))
    exp = draw(st.integers(-4, 2))
    val = mant * 10.0 ** exp
    if not positive and draw(st.integers(0, 3)) == 0:
        val = -val
    if not positive and draw(st.integers(0, 9)) == 0:
        val = 0.0
    return repr(val)


VB_SEPS = st.sampled_from([" ", " ", ",", ", ", " ,", "  ", "\t", "\n", " , "])
WS_SEPS = st.sampled_from([" ", " ", " ", "  ", "\t", "\n", " \t ", "\n    "])
PAD = st.sampled_from(["", "", " ", "  ", "\t", "\n"])


def case_style(draw, word):
    style = draw(st.sampled_from(["spec", "spec", "lower", "upper", "random"]))
    if style == "spec":
        return word, False
    if style == "lower":
        return word.lower(), word.lower() != word
    if style == "upper":
        return word.upper(), True
    out = "".join(c.upper() if draw(st.booleans()) else c.lower() for c in word)
    return out, out != word


@st.composite
def cases(draw):
    tags = set()
    kind = draw(st.integers(0, 9))
    vb_tokens = [draw(number()), draw(number()), draw(number(positive=True)), draw(number(positive=True))]
    dw_val = float(draw(number(positive=True)))
    dh_val = float(draw(number(positive=True)))
    aspect = draw(st.sampled_from(["free", "free", "equal", "equal_scaled", "near_equal", "zero_offset"]))
    if aspect == "zero_offset":
        # coincidence: the viewBox origin on the slack axis equals the slack (or half of it), so that the mid or
        # max alignment asks for an offset of exactly 0 - dyadic numbers keep it exact
        w = float(draw(st.sampled_from([64, 100, 128, 50])))
        h = float(draw(st.sampled_from([64, 100, 32, 200])))
        k = draw(st.sampled_from([1.0, 2.0, 0.5]))
        extra = float(draw(st.sampled_from([16, 32, 100, 50])))
        if draw(st.booleans()):
            dw_val, dh_val = w * k, (h + extra) * k            # slack on y (meet)
            origin = [float(draw(st.sampled_from([0, 8, -8]))), draw(st.sampled_from([extra, extra / 2]))]
        else:
            dw_val, dh_val = (w + extra) * k, h * k            # slack on x
            origin = [draw(st.sampled_from([extra, extra / 2])), float(draw(st.sampled_from([0, 8, -8])))]
        vb_tokens = [repr(origin[0]), repr(origin[1]), repr(w), repr(h)]
        tags.add("alignment_offset_exactly_zero")
    if aspect == "near_equal":
        # aspect ratios that differ by 1e-7 .. 1e-3 (unit-conversion rounding): meet/slice and alignment still apply
        k = draw(st.sampled_from([1.0, 2.0, 0.5, 3.7795275591, 96.0 / 25.4]))
        eps = draw(st.sampled_from([1e-7, 1e-6, 1e-5, 1e-4, 5e-4, 9e-4])) * draw(st.sampled_from([1, -1]))
        dw_val, dh_val = float(vb_tokens[2]) * k * (1 + eps), float(vb_tokens[3]) * k
        if draw(st.booleans()):
            dw_val, dh_val = float(vb_tokens[2]) * k, float(vb_tokens[3]) * k * (1 + eps)
        tags.add("near_equal_aspect")
    elif aspect == "equal":
        dw_val, dh_val = float(vb_tokens[2]), float(vb_tokens[3])
    elif aspect == "equal_scaled":
        k = draw(st.sampled_from([2.0, 0.5, 4.0, 3.0]))
        dw_val, dh_val = float(vb_tokens[2]) * k, float(vb_tokens[3]) * k
    dw = dw_val if draw(st.booleans()) else repr(dw_val)
    dh = dh_val if draw(st.booleans()) else repr(dh_val)
    seps = [draw(VB_SEPS) for _ in range(3)]
    vb_text = draw(PAD) + vb_tokens[0] + seps[0] + vb_tokens[1] + seps[1] + vb_tokens[2] + seps[2] + \
        vb_tokens[3] + draw(PAD)
    if any(s.strip(" ,") != "" or s in ("\t", "\n") for s in seps):
        tags.add("tab_or_newline_separator")
    if any(len(s) > 1 for s in seps):
        tags.add("multi_space")
    # preserveAspectRatio
    par_kind = draw(st.sampled_from(["absent", "empty", "defer_only", "align", "align", "align_mos",
                                     "align_mos", "align_mos", "none", "none_mos"]))
    align, mos, par_text = "xMidYMid", "meet", None
    if par_kind == "absent":
        tags.add("par_absent")
    elif par_kind == "empty":
        par_text = draw(st.sampled_from(["", " ", "\t"]))
        tags.add("par_absent")
    elif par_kind == "defer_only":
        par_text, varied = case_style(draw, "defer")
        tags.add("defer")
    else:
        words = []
        if draw(st.integers(0, 3)) == 0:
            word, varied = case_style(draw, "defer")
            words.append(word)
            tags.add("defer")
            if varied:
                tags.add("case_variant")
        if par_kind in ("none", "none_mos"):
            align = "none"
        else:
            align = draw(st.sampled_from(ALIGNS))
        word, varied = case_style(draw, align)
        if varied:
            tags.add("case_variant")
        words.append(word)
        if par_kind in ("align_mos", "none_mos"):
            mos = draw(st.sampled_from(["meet", "slice", "slice"]))
            word, varied = case_style(draw, mos)
            if varied:
                tags.add("case_variant")
            words.append(word)
        text = draw(PAD)
        for i, word in enumerate(words):
            sep = draw(WS_SEPS) if i else ""
            if i and (len(sep) > 1):
                tags.add("multi_space")
            if i and ("\t" in sep or "\n" in sep):
                tags.add("tab_or_newline_separator")
            text += sep + word
        par_text = text + draw(PAD)
    sem = {"kind": "scale", "vb": vb_tokens, "align": align, "mos": mos}
    # identity classes
    if kind == 0:
        which = draw(st.sampled_from(["none", "empty", "short", "short", "nonnumeric", "nonnumeric",
                                      "nonpositive", "nonpositive", "doc_nonpositive", "both_nonpositive",
                                      "both_nonpositive"]))
        if which == "none":
            vb_text = None
            sem = {"kind": "identity", "why": "malformed_viewbox"}
        elif which == "empty":
            vb_text = draw(st.sampled_from(["", " ", ","]))
            sem = {"kind": "identity", "why": "malformed_viewbox"}
        elif which == "short":
            n = draw(st.integers(1, 3))
            vb_text = " ".join(vb_tokens[:n])
            sem = {"kind": "identity", "why": "malformed_viewbox"}
        elif which == "nonnumeric":
            bad = draw(st.sampled_from(["abc", "10%", "1px", "--1", "1e", "e5", "0x10", "ten", "1..2", "#"]))
            toks = list(vb_tokens)
            toks[draw(st.integers(0, 3))] = bad
            vb_text = " ".join(toks)
            sem = {"kind": "identity", "why": "malformed_viewbox"}
        elif which == "nonpositive":
            toks = list(vb_tokens)
            toks[draw(st.sampled_from([2, 3]))] = draw(st.sampled_from(["0", "-5", "-0.0", "0.0", "-1e2"]))
            vb_text = " ".join(toks)
            sem = {"kind": "identity", "why": "nonpositive"}
        elif which == "both_nonpositive":
            # the viewBox size AND the document size of the same axis (or of both axes) are negative / zero: the
            # quotient of two negatives is positive, the sizes are still non-positive
            toks = list(vb_tokens)
            axes = draw(st.sampled_from([[2], [3], [2, 3]]))
            for axis in axes:
                toks[axis] = draw(st.sampled_from(["-5", "-100", "-0.5", "-1e2", "0"]))
                if axis == 2:
                    dw = draw(st.sampled_from([-10, -100.0, "-3.5", -0.5, 0]))
                else:
                    dh = draw(st.sampled_from([-10, -100.0, "-3.5", -0.5, 0]))
            vb_text = " ".join(toks)
            sem = {"kind": "identity", "why": "nonpositive"}
            tags.add("both_sizes_of_an_axis_nonpositive")
        else:
            if draw(st.booleans()):
                dw = draw(st.sampled_from([0, -10, 0.0, "0", "-3.5"]))
            else:
                dh = draw(st.sampled_from([0, -10, 0.0, "0", "-3.5"]))
            sem = {"kind": "identity", "why": "nonpositive"}
    return {"vb": vb_text, "par": par_text, "dw": dw, "dh": dh, "sem": sem, "tags": sorted(tags)}


def grid():
    shapes = {"doc_wider": ("0 0 100 100", 200, 100), "doc_taller": ("-10 5 100 50", 100, 100),
              "equal": ("3 -4 297 210", 594, 420)}
    for (name, (vb, dw, dh)), align, mos, defer, style in itertools.product(
            shapes.items(), ["none"] + ALIGNS, [None, "meet", "slice"], [False, True],
            ["spec", "lower", "upper"]):
        words = (["defer"] if defer else []) + [align] + ([mos] if mos else [])
        if style == "lower":
            words = [w.lower() for w in words]
        elif style == "upper":
            words = [w.upper() for w in words]
        tags = {"defer"} if defer else set()
        if style != "spec":
            tags.add("case_variant")
        yield {"vb": vb, "par": " ".join(words), "dw": dw, "dh": dh,
               "sem": {"kind": "scale", "vb": vb.split(), "align": align, "mos": mos or "meet"},
               "tags": sorted(tags)}


def run(ctx):
    ctx.exhaustive("grid", grid(), body, "3 aspect classes x 10 aligns x {absent, meet, slice} x defer x 3 case styles")
    ctx.given("generated", cases(), body, quick=8000, thorough=800000)
    if ctx.thorough and ctx.shard == 0:
        from pbt.fuzz import driver
        driver.run_stage(ctx, "c11_vbscale")


def replay(ctx, part, case):
    body(ctx, case)
