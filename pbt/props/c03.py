"""C03 — step-limited (LM) move duration is the first tick that exhausts the step budget."""
from hypothesis import strategies as st

from pbt import sut
from pbt.sut import call_sut
from pbt.oracles import firmware as fw
from pbt.oracles.firmware import M, W, tz
from pbt.gen_firmware import ticks

ID = "C03"
RULE = ("Inverse construction: draw accel, first-tick rate and a tick horizon on which every per-tick "
        "|rate| <= 2^31-1, compute the steps the recurrence takes by then and choose the budget from "
        "{that, a value below it, steps-before-reversal (+0/1/2), 1, 2}; accumulators clear / explicit / "
        "chosen so the final accumulator lands within 2 counts of a step boundary; legacy negative-step "
        "mirror; cannot-move requests. Oracle: least t whose total variation of floor(A/2^31) reaches the "
        "budget (exact integers, bisection; literal per-tick step counter for t <= 20000). Non-trivial: the "
        "move reverses before completing, or lands within 2 counts of a boundary, or uses the legacy form. "
        "Distinct = argument tuples.")
ASSUMPTIONS = [
    "integer arguments with 1 <= |steps| <= 2^31-1, |rate|, |accel| <= 2^31-1 and every per-tick |rate| "
    "<= 2^31-1 up to completion (by construction)",
    "steps are counted as changes of floor(accumulator_total / 2^31), in either direction, as the statement says",
]
REQUIRED_CLASSES = ["nontrivial", "accel_zero", "same_sign", "decel_no_reversal", "reversal_before_tick1",
                    "kstar=1", "r1_zero", "reverses", "reverses_before_first_step",
                    "reverses_after_steps", "boundary_landing", "legacy", "cannot_move", "loop_validated",
                    "reverses_after_2^21_ticks",
                    "explicit_accumulator", "t>2^20"]
QUICK_SHARDS = 8

ebb_calc = sut.load("ebb_calc")
ebb_motion = sut.load("ebb_motion")
OPTION_PROBES = [(ebb_calc.calculate_lm, ["steps", "rate", "accel", "accum"], [5, 268435456, 0]),
                 (ebb_motion.moveTimeLM, ["rate", "steps", "accel"], [268435456, 5, 0])]



def body(ctx, case):
    steps, rate, accel, accum = case["steps"], case["rate"], case["accel"], case["accum"]
    exp = fw.lm_expected(steps, rate, accel, accum, horizon=case.get("horizon"))
    if exp is None:
        raise sut.HarnessError("generated LM case does not complete: %r" % (case,))
    t, pos, acc, info = exp
    classes = set()
    nontrivial = False
    if info.get("cannot_move"):
        classes.add("cannot_move")
    else:
        m_steps, m_rate, m_accel = (steps, rate, accel) if steps > 0 else (-steps, -rate, -accel)
        lo, hi = fw.lt_rate_range(m_rate, m_accel, t)
        if lo < -M or hi > M or abs(rate) > M or abs(accel) > M or abs(steps) > M:
            raise sut.HarnessError("generated LM case leaves the valid domain: %r" % (case,))
        r1 = fw.lt_rate(m_rate, m_accel, 1)
        if steps < 0:
            classes.add("legacy")
            nontrivial = True
        if m_accel == 0:
            classes.add("accel_zero")
        elif r1 == 0:
            classes.add("r1_zero")
        elif (r1 > 0) == (m_accel > 0):
            classes.add("same_sign")
            if m_rate != 0 and (m_rate > 0) != (r1 > 0):
                classes.add("reversal_before_tick1")
        if info["kstar"] is not None:
            if info["kstar"] == 1:
                classes.add("kstar=1")
            if info["reverses"]:
                classes.add("reverses")
                nontrivial = True
                classes.add("reverses_before_first_step" if info["steps_before_reversal"] == 0
                            else "reverses_after_steps")
            else:
                classes.add("decel_no_reversal")
        if acc <= 2 or acc >= W - 2:
            classes.add("boundary_landing")
            nontrivial = True
        if info["looped"]:
            classes.add("loop_validated")
        if accum != "clear":
            classes.add("explicit_accumulator")
        if t > 1 << 20:
            classes.add("t>2^20")
        if info["kstar"] is not None and info["reverses"] and info["kstar"] > 1 << 21:
            classes.add("reverses_after_2^21_ticks")
    ctx.record((steps, rate, accel, accum), classes, nontrivial)

    # calculate_lm must not depend on what an earlier call (the library's own predictors leave 30 digits behind)
    # or the caller left in mpmath's global context: by default a fresh interpreter has 15 digits / 53 bits
    import mpmath
    ambient = case.get("ambient", 15)
    saved = mpmath.mp.prec
    mpmath.mp.dps = ambient
    try:
        got = call_sut(ebb_calc.calculate_lm, steps, rate, accel, accum)
    finally:
        mpmath.mp.prec = saved
    classes_after = "ambient_default" if ambient == 15 else "ambient_other"
    ctx.classes[classes_after] += 1
    if tuple(got) != (t, pos, acc):
        ctx.fail("calculate_lm(%d, %d, %d, %r) = %r; recurrence reaches the budget first at tick %d with "
                 "(position, accumulator) = (%d, %d)%s" % (steps, rate, accel, accum, tuple(got), t, pos, acc,
                                                            "" if ambient == 15 else
                                                            " [ambient mpmath precision: %d digits]" % ambient),
                 case)
    if not all(isinstance(v, int) and not isinstance(v, bool) for v in got):
        ctx.fail("calculate_lm returned non-integers %r" % (got,), case)
    if info.get("cannot_move"):
        return
    if not 0 <= got[2] < W:
        ctx.fail("calculate_lm accumulator %r outside [0, 2^31)" % (got[2],), case)
    # consequence: feeding the duration to the timed-move predictor reproduces position/accumulator
    m_rate, m_accel = (rate, accel) if steps > 0 else (-rate, -accel)
    back = call_sut(ebb_calc.move_dist_lt, m_rate, m_accel, got[0], accum)
    if tuple(back) != (got[1], got[2]):
        ctx.fail("move_dist_lt(%d, %d, %d, %r) = %r does not reproduce calculate_lm's (%d, %d)"
                 % (m_rate, m_accel, got[0], accum, tuple(back), got[1], got[2]), case)
    if accum == "clear":
        old = call_sut(ebb_motion.moveTimeLM, rate, steps, accel)
        if old != t:
            ctx.fail("moveTimeLM(%d, %d, %d) = %r, expected %d" % (rate, steps, accel, old, t), case)


def _mag(draw, lo, hi):
    """Integer magnitude in [lo, hi], log-uniform-ish with weight on both ends."""
    lo = max(lo, 0)
    hi = max(hi, lo)
    mode = draw(st.sampled_from(["log", "log", "lo", "hi", "uniform"]))
    if mode == "lo":
        return min(hi, lo + draw(st.integers(0, 3)))
    if mode == "hi":
        return max(lo, hi - draw(st.integers(0, 3)))
    if mode == "uniform":
        return draw(st.integers(lo, hi))
    lg = draw(st.integers(max(lo, 1).bit_length() - 1, hi.bit_length()))
    val = draw(st.integers(1 << max(lg - 1, 0), (1 << lg)))
    return min(hi, max(lo, val))


@st.composite
def cases(draw):
    case = draw(moves())
    amb = draw(st.sampled_from([15, 15, 15, 15, 30, 5, 60, 2]))
    if amb != 15:
        case["ambient"] = amb
    return case


@st.composite
def moves(draw):
    mode = draw(st.sampled_from(["const", "same", "same", "oppose", "oppose", "oppose", "oppose_steps", "long_turn",
                                 "oppose_steps", "kstar1", "kstar1", "r1zero", "pre_tick1", "tiny",
                                 "tiny", "tiny", "cannot"]))
    if mode == "cannot":
        kind = draw(st.sampled_from(["zero_steps", "zero_rate_accel", "neg_neg"]))
        big = st.integers(-M, M)
        if kind == "zero_steps":
            return {"steps": 0, "rate": draw(big), "accel": draw(big), "accum": draw(_accums())}
        if kind == "zero_rate_accel":
            return {"steps": draw(big), "rate": 0, "accel": 0, "accum": draw(_accums())}
        return {"steps": -draw(st.integers(1, M)), "rate": -draw(st.integers(1, M)),
                "accel": draw(big), "accum": draw(_accums())}

    sign = draw(st.sampled_from([-1, 1]))
    Tt = draw(ticks(draw(st.sampled_from([10, 16, 22, 26, 32]))))
    if mode == "const":
        accel = 0
        r1 = sign * _mag(draw, 1, M)
    elif mode == "tiny":
        accel = draw(st.integers(-50, 50))
        r1 = draw(st.integers(-50, 50))
        if accel == 0 and r1 == 0:
            r1 = sign
    elif mode == "same":
        a_mag = _mag(draw, 1, min(M, max(1, (2 * M) // max(Tt, 1))))
        accel = sign * a_mag
        r1 = sign * _mag(draw, 0, max(0, M - a_mag * max(Tt - 1, 0)))
    elif mode == "r1zero":
        accel = sign * _mag(draw, 1, M)
        r1 = 0
    elif mode == "pre_tick1":
        # rate argument and first-tick rate have opposite signs: |r1| < |accel|/2, same sign as accel
        a_mag = _mag(draw, 3, M)
        accel = sign * a_mag
        r1 = sign * draw(st.integers(1, max(1, (a_mag - 1) // 2)))
    elif mode == "kstar1":
        # reversal right after tick 1: |accel| > |r1| > 0, opposing
        r_mag = _mag(draw, 1, M - 1)
        a_mag = _mag(draw, r_mag + 1, M)
        r1, accel = sign * r_mag, -sign * a_mag
    elif mode == "long_turn":
        # a gentle deceleration that turns round only after millions of ticks (and millions of steps): the outbound
        # leg's accumulator total is then far beyond 2^53
        a_mag = draw(st.integers(1, 1000))
        k_turn = draw(st.integers(1 << 21, 1 << 24))
        r_mag = min(M - a_mag, a_mag * k_turn + draw(st.integers(0, a_mag)))
        r1, accel = sign * r_mag, -sign * a_mag
        Tt = max(Tt, min(2 * (r_mag // a_mag), r_mag // a_mag + draw(st.integers(1, 1 << 22))))
    elif mode == "oppose_steps":
        # choose |accel| so that about s steps are taken before the reversal
        r_mag = _mag(draw, 1 << 16, M)
        s = draw(st.integers(1, 2000))
        a_mag = max(1, (r_mag * r_mag) // (2 * W * s) + draw(st.integers(-1, 1)))
        r1, accel = sign * r_mag, -sign * min(a_mag, M)
    else:  # oppose
        r_mag = _mag(draw, 1, M)
        a_mag = _mag(draw, 1, M)
        r1, accel = sign * r_mag, -sign * a_mag

    rate = r1 - accel + tz(accel, 2)
    if abs(rate) > M:                          # keep the rate *argument* legal
        rate = max(-M, min(M, rate))
        r1 = rate - tz(accel, 2) + accel
    # largest horizon on which every per-tick rate is valid
    if accel == 0:
        t_valid = 1 << 44
    else:
        if abs(r1) > M:
            # first tick already out of range: shrink accel until legal (constructive)
            accel = tz(accel, 2)
            rate = max(-M, min(M, r1 - accel + tz(accel, 2)))
            r1 = rate - tz(accel, 2) + accel
            if abs(r1) > M:
                accel, rate, r1 = 0, sign, sign
        if accel == 0:
            t_valid = 1 << 44
        else:
            room = (M - r1) if accel > 0 else (M + r1)
            t_valid = 1 + room // abs(accel)
    Tt = max(1, min(Tt, t_valid))

    accum = draw(_accums())
    acc0 = fw.lt_clear(rate, accel) if accum == "clear" else accum
    kstar = fw.lm_kstar(rate, accel)
    total = fw.lm_steps_at(rate, accel, acc0, Tt, kstar)
    while total == 0 and Tt < t_valid:         # extend the horizon until something moves
        Tt = min(Tt * 2, t_valid)
        total = fw.lm_steps_at(rate, accel, acc0, Tt, kstar)

    landing = draw(st.integers(0, 5)) == 0
    turn_landing = (not landing) and kstar is not None and 1 <= kstar < Tt and \
        draw(st.integers(0, 3 if mode != "long_turn" else 1)) == 0
    if turn_landing:
        # choose an explicit accumulator so that the unreduced total AT THE TURN-ROUND TICK sits at a step boundary
        # +-3: the count of steps made before the reversal then hangs on the last few accumulator counts, however
        # many million ticks the outbound leg took
        delta = draw(st.integers(-3, 3))
        base = 0 if accum == "clear" else accum
        resid = fw.lt_total(rate, accel, kstar, base) % W
        accum = (base - resid + delta) % W
        acc0 = accum
        total = fw.lm_steps_at(rate, accel, acc0, Tt, kstar)
    if landing and total > 0:
        # choose an explicit accumulator so that the unreduced total at Tt sits at a step boundary +-2
        delta = draw(st.integers(-2, 2))
        base = 0 if accum == "clear" else accum
        resid = fw.lt_total(rate, accel, Tt, base) % W
        accum = (base - resid + delta) % W
        acc0 = accum
        total = fw.lm_steps_at(rate, accel, acc0, Tt, kstar)
    if total == 0:
        # nothing can move inside the valid window (e.g. r1 = 0, |accel| = M): emit a cannot-move request
        return {"steps": 0, "rate": rate, "accel": accel, "accum": accum}

    s_rev = fw.lm_steps_at(rate, accel, acc0, kstar, kstar) if kstar is not None and kstar <= Tt else None
    pick = draw(st.sampled_from(["total", "total", "below", "below", "rev", "rev+1", "rev+2", "one", "two"]))
    if pick == "total":
        steps = total
    elif pick == "below":
        steps = draw(st.integers(1, total))
    elif pick == "one":
        steps = 1
    elif pick == "two":
        steps = 2
    else:
        steps = (s_rev if s_rev is not None else total) + {"rev": 0, "rev+1": 1, "rev+2": 2}[pick]
    steps = max(1, min(steps, total, M))
    case = {"steps": steps, "rate": rate, "accel": accel, "accum": accum, "horizon": Tt}
    if rate <= 0 and draw(st.integers(0, 4)) == 0:
        # legacy form: negative step count mirrors the move
        case = {"steps": -steps, "rate": -rate, "accel": -accel, "accum": accum, "horizon": Tt}
    return case


def _accums():
    return st.one_of(st.just("clear"), st.just("clear"), st.just("clear"),
                     st.sampled_from([0, 1, 2, M - 1, M, 1 << 30]), st.integers(0, M))


def small_grid():
    """Dense small lattice with huge relative coincidence rate: every (accel, r1) in -6..6 and
    near +-2^30 multiples, budgets 1..4, three accumulators."""
    for accel in list(range(-6, 7)) + [1 << 29, -(1 << 29), (1 << 30) + 1, -(1 << 30) - 1]:
        for r1 in list(range(-6, 7)) + [1 << 30, -(1 << 30), M, -M, (1 << 30) - 1, 1 - (1 << 30)]:
            rate = r1 - accel + tz(accel, 2)
            if abs(rate) > M or (accel == 0 and rate == 0):
                continue
            for accum in ("clear", 0, M, 1 << 30):
                acc0 = fw.lt_clear(rate, accel) if accum == "clear" else accum
                kstar = fw.lm_kstar(rate, accel)
                if accel == 0:
                    t_valid = 1 << 40
                else:
                    room = (M - r1) if accel > 0 else (M + r1)
                    if room < 0:
                        continue
                    t_valid = 1 + room // abs(accel)
                for steps in (1, 2, 3, 4):
                    # only budgets the recurrence can complete within the valid window
                    if accel != 0 and fw.lm_steps_at(rate, accel, acc0, t_valid, kstar) < steps:
                        continue
                    yield {"steps": steps, "rate": rate, "accel": accel, "accum": accum,
                           "horizon": t_valid}


def run(ctx):
    ctx.exhaustive("small-grid", small_grid(), body,
                   "accel, first-tick rate in -6..6 and near +-2^30/2^31 x budgets 1..4 x 4 accumulators")
    ctx.given("generated", cases(), body, quick=16000, thorough=1600000)
    if ctx.thorough and ctx.shard == 0:
        from pbt.fuzz import driver
        driver.run_stage(ctx, "c03_moves", runs=100000, max_len=4096)


def replay(ctx, part, case):
    body(ctx, case)
