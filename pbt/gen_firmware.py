"""Constructive Hypothesis strategies for firmware-valid moves (DESIGN §3.1).

Every draw is valid by construction (no filter/assume): candidates for (accel, jerk) are
scaled down until the rate excursion fits the signed 31-bit window, then r0 is drawn from
the exact feasible interval.
"""
from hypothesis import strategies as st

from pbt.oracles.firmware import M, W, tz, t3_q_range, t3_q

AMBIENT = st.one_of(
    st.none(),
    st.tuples(st.just("dps"), st.sampled_from([1, 2, 5, 15, 29, 30, 31, 60, 1000])),
    st.tuples(st.just("prec"), st.integers(10, 500)),
)


@st.composite
def ticks(draw, max_log=32):
    kind = draw(st.sampled_from(["tiny", "8", "16", "24", "32", "32"]))
    if kind == "tiny":
        return draw(st.sampled_from([1, 2, 3, 4]))
    hi_log = min(int(kind), max_log)
    lg = draw(st.integers(max(0, min(hi_log - 1, int(kind) - 12)), hi_log))
    lo = 1 << max(lg - 1, 0)
    hi = min((1 << lg), (1 << 32) - 1)
    return draw(st.integers(lo, max(lo, hi)))


def _small_or_wide(draw, bound):
    """Integer in [-bound, bound], weighted on small magnitudes and on the ends."""
    bound = max(0, bound)
    mode = draw(st.sampled_from(["small", "wide", "end", "wide", "log"]))
    if mode == "small":
        return draw(st.integers(-min(bound, 12), min(bound, 12)))
    if mode == "end":
        off = draw(st.integers(0, min(bound, 3)))
        return draw(st.sampled_from([-1, 1])) * (bound - off)
    if mode == "log":
        lg = draw(st.integers(0, max(bound.bit_length(), 1)))
        mag = min(bound, draw(st.integers(0, (1 << lg))))
        return draw(st.sampled_from([-1, 1])) * mag
    return draw(st.integers(-bound, bound))


def _fits(accel, jerk, T):
    qmin, qmax = t3_q_range(accel, jerk, T)
    if qmax - qmin > 2 * M:
        return False
    # acceleration stays a signed 32-bit quantity on ticks 0..T (narrow reading: +-M)
    if abs(accel) > M or abs(accel + T * jerk) > M or abs(jerk) > M:
        return False
    # r0 interval from the rates, intersected with the one that keeps the rate argument legal
    cprime = -tz(accel, 2) + tz(jerk, 6)
    lo = max(-M - qmin, -M + cprime)
    hi = min(M - qmax, M + cprime)
    return lo <= hi


@st.composite
def t3_moves(draw, with_jerk=True, vertex_weight=0.3, max_log=32):
    """(T, rate, accel, jerk) in the firmware-valid domain, with a tag saying how it was built."""
    if with_jerk:
        # a non-zero integer jerk bends the rate by >= jerk*(T-1)^2/8 over the move, so valid
        # jerk moves have T below ~2^18; longer ones necessarily have jerk == 0
        max_log = min(max_log, draw(st.sampled_from([18, 18, 18, 32])))
    T = draw(ticks(max_log))
    tag = "free"
    if not with_jerk:
        jerk = 0
        accel = _small_or_wide(draw, min(M, (2 * M) // max(T - 1, 1)))
    else:
        jb = min(M, max(1, (4 * M) // max(T * T // 2, 1)))
        jerk = _small_or_wide(draw, jb)
        if jerk == 0:
            jerk = draw(st.sampled_from([-1, 1]))
        pick = draw(st.integers(0, 99))
        if jerk != 0 and pick < int(vertex_weight * 100):
            # place the vertex k* = 1/2 - accel/jerk at a chosen position relative to [1, T]
            where = draw(st.sampled_from(["before", "first", "first", "inside", "inside",
                                          "last", "last", "after"]))
            if where == "before":
                kv = draw(st.integers(-T - 3, 0))
            elif where == "first":
                kv = draw(st.integers(0, 4))
            elif where == "inside":
                kv = draw(st.integers(1, max(1, T)))
            elif where == "last":
                kv = draw(st.integers(T - 4, T + 1))
            else:
                kv = draw(st.integers(T + 1, 2 * T + 3))
            # accel = jerk*(1/2 - k*) with k* = kv + frac, frac in {0, 1/2, other}
            frac2 = draw(st.sampled_from([0, 1, 1, 2]))       # k* = kv + frac2/2 - 1/2
            accel = -(jerk * (2 * kv + frac2 - 2)) // 2 + draw(st.integers(-1, 1))
            tag = "vertex-" + where
        elif pick < int(vertex_weight * 100) + 8:
            accel = -jerk                                      # r_2 - r_1 = accel + jerk = 0
            tag = "accel=-jerk"
        else:
            accel = _small_or_wide(draw, min(M, (2 * M) // max(T - 1, 1)))
    # pull (accel, jerk) into the valid window (constructive; terminates: (0, 0) always fits).
    # accel is first moved toward the value that centres the vertex (smallest excursion for
    # this jerk); only if even that does not fit is the jerk reduced.
    for _ in range(600):
        if _fits(accel, jerk, T):
            break
        centre = -(jerk * T) // 2
        if accel != centre and _fits(centre, jerk, T):
            diff = accel - centre
            accel = centre + (tz(diff * 2, 3) if abs(diff) > 1 else 0)
        else:
            jerk = tz(jerk * 2, 3)
            accel = tz(accel * 2, 3)
    else:
        accel, jerk = 0, 0
    qmin, qmax = t3_q_range(accel, jerk, T)
    cprime = -tz(accel, 2) + tz(jerk, 6)
    lo = max(-M - qmin, -M + cprime)
    hi = min(M - qmax, M + cprime)
    modes = ["lo", "hi", "zero1", "zero1", "zero12", "small", "small",
             "uniform", "uniform", "uniform"]
    if tag.startswith("vertex-"):
        modes += ["peakside"] * 5
    mode = draw(st.sampled_from(modes))
    if mode == "peakside":
        # put r0 on the side of the window that makes the vertex the absolute peak
        span = (hi - lo) // draw(st.sampled_from([2, 4, 64, 1 << 20]))
        off = draw(st.integers(0, max(span, 0)))
        r0 = lo + off if jerk > 0 else hi - off
    elif mode == "lo":
        r0 = min(hi, lo + draw(st.integers(0, 3)))
    elif mode == "hi":
        r0 = max(lo, hi - draw(st.integers(0, 3)))
    elif mode in ("zero1", "zero12") and lo <= -accel <= hi:
        r0 = -accel                                            # r_1 = 0
        tag += "+r1=0"
    elif mode == "small":
        r0 = min(hi, max(lo, draw(st.integers(-5, 5))))
    else:
        r0 = draw(st.integers(lo, hi))
    rate = r0 - cprime
    return {"T": T, "rate": rate, "accel": accel, "jerk": jerk, "tag": tag}


@st.composite
def accumulators(draw):
    kind = draw(st.sampled_from(["clear", "clear", "edge", "uniform", "uniform"]))
    if kind == "clear":
        return "clear"
    if kind == "edge":
        return draw(st.sampled_from([0, 1, 2, M - 1, M, 1 << 30, (1 << 30) - 1]))
    return draw(st.integers(0, M))


def set_ambient(amb):
    """Leave an arbitrary mpmath working precision behind, as a caller might."""
    import mpmath
    if amb is None:
        return
    if amb[0] == "dps":
        mpmath.mp.dps = amb[1]
    else:
        mpmath.mp.prec = amb[1]


def rates_valid(T, rate, accel, jerk):
    """Domain predicate (used by self-checks and replay, not for rejection)."""
    qmin, qmax = t3_q_range(accel, jerk, T)
    r0 = rate - tz(accel, 2) + tz(jerk, 6)
    return (-M <= r0 + qmin and r0 + qmax <= M and abs(rate) <= M and abs(accel) <= M
            and abs(jerk) <= M and abs(accel + T * jerk) <= M)
