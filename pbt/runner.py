"""Runner: ./check <ID> [--tier quick|thorough] [--replay FILE] [--shards N]

Exit status: 0 = property held on everything explored (KNOWN-FINDING lines allowed),
             1 = a line "VIOLATION property=<id> replay=<path>" was printed,
             2 = harness error (never a verdict about plotink).
"""
import argparse
import collections
import hashlib
import importlib
import json
import multiprocessing
import os
import sys
import time
import traceback

ROOT = os.path.dirname(os.path.dirname(os.path.abspath(__file__)))
if ROOT not in sys.path:
    sys.path.insert(1, ROOT)

from pbt.sut import PropertyFailure, HarnessError, REPO  # noqa: E402

MAX_DISTINCT = 1_500_000      # cap on stored hashes per shard (reported if hit)
MAX_SAMPLES = 12


def _is_flaky(exc):
    try:
        from hypothesis import errors
    except ImportError:
        return False
    kinds = tuple(k for k in (getattr(errors, "Flaky", None), getattr(errors, "FlakyFailure", None),
                              getattr(errors, "FlakyStrategyDefinition", None)) if k is not None)
    if isinstance(exc, kinds):
        return True
    inner = getattr(exc, "exceptions", None)          # ExceptionGroup
    return bool(inner) and any(_is_flaky(e) or isinstance(e, PropertyFailure) for e in inner)


class StopShrink(BaseException):
    """Deterministic shrink budget exhausted (count of body calls after first failure)."""


def _h(obj):
    return hashlib.blake2b(repr(obj).encode("utf-8", "backslashreplace"), digest_size=8).digest()


def jsonable(obj):
    """Make a case JSON-serialisable without losing what a reader needs."""
    if isinstance(obj, (str, int, bool)) or obj is None:
        return obj
    if isinstance(obj, float):
        if obj != obj or obj in (float("inf"), float("-inf")):
            return repr(obj)
        return obj
    if isinstance(obj, bytes):
        return {"__bytes__": obj.decode("latin-1")}
    if isinstance(obj, dict):
        return {str(k): jsonable(v) for k, v in obj.items()}
    if isinstance(obj, (list, tuple, set, frozenset)):
        return [jsonable(v) for v in obj]
    return repr(obj)


def unjson(obj):
    if isinstance(obj, dict):
        if set(obj) == {"__bytes__"}:
            return obj["__bytes__"].encode("latin-1")
        return {k: unjson(v) for k, v in obj.items()}
    if isinstance(obj, list):
        return [unjson(v) for v in obj]
    return obj


class Ctx:
    """Per-shard accounting and Hypothesis plumbing handed to a property module."""

    def __init__(self, prop_id, tier, seed, shard=0, nshards=1, replaying=False):
        self.prop_id = prop_id
        self.tier = tier
        self.seed = seed
        self.shard = shard
        self.nshards = nshards
        self.replaying = replaying
        self.evaluations = 0
        self.nontrivial = set()
        self.nontrivial_capped = False
        self.classes = collections.Counter()
        self.samples = []
        self.class_samples = {}
        self.parts = collections.OrderedDict()
        self.extra = collections.Counter()
        self.notes = {}
        self.exhaustive_parts = []
        self._part = None
        self._failing = None            # last (smallest so far) failing case under shrinking
        self._post_failure_calls = 0
        self._shrink_budget = 3000 if tier == "quick" else 20000

    # ---- accounting -------------------------------------------------------------
    def record(self, case, classes=(), nontrivial=False):
        """Count one executed case.  `classes` feed the generator histogram,
        `nontrivial` is the property's stated rule evaluated on this case."""
        self.evaluations += 1
        if self._part is not None:
            self.parts[self._part] = self.parts.get(self._part, 0) + 1
        for cls in classes:
            self.classes[cls] += 1
            if cls not in self.class_samples and len(self.class_samples) < 40:
                self.class_samples[cls] = jsonable(case)
        if nontrivial:
            self.classes["nontrivial"] += 1
            if len(self.nontrivial) < MAX_DISTINCT:
                self.nontrivial.add(_h(case))
            else:
                self.nontrivial_capped = True
        if len(self.samples) < MAX_SAMPLES // 2:
            self.samples.append(jsonable(case))
        elif nontrivial and self.evaluations % 97 == 0 and len(self.samples) < MAX_SAMPLES:
            self.samples.append(jsonable(case))

    def count(self, key, n=1):
        self.extra[key] += n

    def n(self, quick, thorough):
        """Case budget for this shard."""
        total = quick if self.tier == "quick" else thorough
        return max(1, total // self.nshards)

    @property
    def thorough(self):
        return self.tier == "thorough"

    def fail(self, message, case, expensive=False):
        """expensive=True: every failing execution costs a whole line budget (non-termination); shrinking such a
        failure would take hours, so the first failing case is reported as it is."""
        exc = PropertyFailure(message, case=jsonable(case), part=self._part)
        exc.expensive = expensive
        raise exc

    # ---- engines ----------------------------------------------------------------
    def _settings(self, n, **kw):
        from hypothesis import settings, HealthCheck, Phase
        phases = kw.pop("phases", None)
        if phases is None:
            phases = [Phase.explicit, Phase.generate, Phase.target, Phase.shrink]
        return settings(max_examples=n, database=None, deadline=None, derandomize=False,
                        report_multiple_bugs=False, print_blob=False,
                        suppress_health_check=[HealthCheck.too_slow, HealthCheck.data_too_large,
                                               HealthCheck.large_base_example],
                        phases=phases, **kw)

    def _wrap(self, part, body):
        def wrapped(case):
            if self._failing is not None:
                self._post_failure_calls += 1
            try:
                run_guarded(body, self, case)
            except PropertyFailure as exc:
                if exc.case is None:
                    exc.case = jsonable(case)
                exc.part = part
                self._failing = exc
                # deterministic shrink budget: stop at a failing attempt (so the reported case
                # is a real failure) once enough executions have been spent on shrinking
                if self._post_failure_calls > self._shrink_budget or getattr(exc, "expensive", False):
                    raise StopShrink() from None
                raise
        return wrapped

    def given(self, part, strategy, body, quick, thorough, **kw):
        """Run body(ctx, case) over `strategy` with the tier's case budget."""
        import hypothesis
        from hypothesis import given
        n = self.n(quick, thorough)
        self._part = part
        self._failing = None
        self._post_failure_calls = 0
        test = self._wrap(part, body)

        @hypothesis.seed(self.seed)
        @self._settings(n, **kw)
        @given(strategy)
        def run(case):
            test(case)

        try:
            run()
        except StopShrink:
            raise self._failing from None
        except PropertyFailure:
            raise
        except BaseException as exc:  # pylint: disable=broad-except
            # Hypothesis reports "flaky" when a failing case passes on re-execution.  Every body here is a pure
            # function of its case, so that can only mean the code under test carried state over from an earlier
            # call (a cache, a memo).  The oracle disagreement was observed on an in-domain input against the real
            # code: it is a property failure, not a harness fault.
            if self._failing is not None and _is_flaky(exc):
                fail = self._failing
                fail.message += (" [not reproducible in isolation: the code under test behaved differently when "
                                 "the same case was run again, i.e. it keeps state between calls]")
                raise fail from None
            raise
        finally:
            self._part = None

    def machine(self, part, machine_cls, quick, thorough, steps=30, **kw):
        """Run a RuleBasedStateMachine.  The machine must keep `self.history` (a JSON-able
        list of operations) and raise PropertyFailure via ctx.fail()."""
        import hypothesis
        from hypothesis.stateful import run_state_machine_as_test
        n = self.n(quick, thorough)
        self._part = part
        self._failing = None
        self._post_failure_calls = 0
        ctx = self

        class Bound(machine_cls):
            def __init__(self):
                if ctx._failing is not None:
                    ctx._post_failure_calls += 1
                super().__init__()

        Bound.__name__ = machine_cls.__name__
        Bound.__qualname__ = machine_cls.__qualname__
        try:
            run_state_machine_as_test(hypothesis.seed(self.seed)(Bound),
                                      settings=self._settings(n, stateful_step_count=steps, **kw))
        except StopShrink:
            raise self._failing from None
        except PropertyFailure as exc:
            exc.part = part
            raise
        except BaseException as exc:  # pylint: disable=broad-except
            if self._failing is not None and _is_flaky(exc):
                fail = self._failing
                fail.part = part
                fail.message += (" [not reproducible in isolation: the code under test behaved differently when "
                                 "the same history was run again, i.e. it keeps state between objects]")
                raise fail from None
            raise
        finally:
            self._part = None

    def note_failure(self, exc):
        """Called by machines when a step fails, so the shrink budget knows a failure was seen."""
        self._failing = exc
        if self._post_failure_calls > self._shrink_budget // 10:
            raise StopShrink() from None

    def exhaustive(self, part, iterable, body, label=None):
        """Enumerate a finite sub-domain completely (split across shards by index)."""
        self._part = part
        count = 0
        try:
            for idx, case in enumerate(iterable):
                if idx % self.nshards != self.shard:
                    continue
                count += 1
                try:
                    run_guarded(body, self, case)
                except PropertyFailure as exc:
                    if exc.case is None:
                        exc.case = jsonable(case)
                    exc.part = part
                    raise
        finally:
            self._part = None
        self.exhaustive_parts.append({"part": part, "cases": count, "what": label or part})

    def result(self):
        return {
            "evaluations": self.evaluations,
            "nontrivial": self.nontrivial,
            "capped": self.nontrivial_capped,
            "classes": dict(self.classes),
            "samples": self.samples,
            "class_samples": self.class_samples,
            "parts": dict(self.parts),
            "extra": dict(self.extra),
            "notes": self.notes,
            "exhaustive_parts": self.exhaustive_parts,
        }


def run_guarded(body, ctx, case):
    """body(ctx, case); a call into plotink that keeps polling a silent port for ever (sut.Runaway, raised by the
    fake port) is a property failure - every request returns - not a harness fault."""
    from pbt.sut import Runaway
    try:
        body(ctx, case)
    except Runaway as exc:
        fail = PropertyFailure("the call never returned: %s" % exc, case=jsonable(case), part=ctx._part)
        fail.expensive = True
        raise fail from None


def load_prop(prop_id):
    mod = importlib.import_module("pbt.props." + prop_id.lower())
    if getattr(mod, "OPTION_PROBES", None) and not hasattr(mod, "PROBED"):
        # once per process, before any case and before any replay: see sut.probe_options
        from pbt import sut
        mod.PROBED = sut.probe_options(mod.OPTION_PROBES)
    return mod


def _run_shard(args):
    prop_id, tier, seed, shard, nshards = args
    ctx = Ctx(prop_id, tier, seed, shard, nshards)
    out = {"failure": None, "harness_error": None}
    try:
        mod = load_prop(prop_id)
        if getattr(mod, "PROBED", None):
            ctx.notes["new_optional_parameters_probed_first"] = mod.PROBED[:40]
        mod.run(ctx)
    except PropertyFailure as exc:
        out["failure"] = {"part": exc.part, "case": exc.case, "message": exc.message,
                          "seed": seed, "shard": shard}
    except BaseException:  # pylint: disable=broad-except
        out["harness_error"] = traceback.format_exc()
    out.update(ctx.result())
    return out


def read_known_findings():
    """KNOWN_FINDINGS.txt: 'fixed: property=<id> <commit> <what>' (suppresses nothing) and
    'known: property=<id> key=<key> <what fails>' (printed as KNOWN-FINDING, not VIOLATION)."""
    known = {}
    path = os.path.join(ROOT, "KNOWN_FINDINGS.txt")
    if not os.path.exists(path):
        return known
    with open(path, encoding="utf-8") as fh:
        for line in fh:
            line = line.strip()
            if not line.startswith("known:"):
                continue
            fields = dict(f.split("=", 1) for f in line.split()[1:3] if "=" in f)
            what = line.split(None, 3)[3] if len(line.split(None, 3)) > 3 else ""
            known.setdefault(fields.get("property"), {})[fields.get("key")] = what
    return known


def replay_file(mod, ctx, path):
    with open(path, encoding="utf-8") as fh:
        doc = json.load(fh)
    if doc.get("property") not in (None, ctx.prop_id):
        raise HarnessError("%s is a replay for %s" % (path, doc.get("property")))
    ctx._part = "regress"
    try:
        run_guarded(lambda c, case: mod.replay(c, doc["part"], case), ctx, unjson(doc["case"]))
    finally:
        ctx._part = None
    return doc


def write_replay(prop_id, failure):
    os.makedirs(os.path.join(ROOT, "replays"), exist_ok=True)
    doc = {"property": prop_id, "part": failure["part"], "case": failure["case"],
           "message": failure["message"], "found_with_seed": failure.get("seed")}
    text = json.dumps(doc, indent=1, sort_keys=True)
    name = "%s-%s.json" % (prop_id, hashlib.blake2b(text.encode(), digest_size=5).hexdigest())
    path = os.path.join(ROOT, "replays", name)
    with open(path, "w", encoding="utf-8") as fh:
        fh.write(text + "\n")
    return path


def main(argv=None):
    parser = argparse.ArgumentParser()
    parser.add_argument("prop")
    parser.add_argument("--tier", default=os.environ.get("VERIF_TIER") or "quick",
                        choices=["quick", "thorough"])
    parser.add_argument("--replay")
    parser.add_argument("--shards", type=int, default=None)
    parser.add_argument("--no-evidence", action="store_true")
    parser.add_argument("--no-regress", action="store_true",
                        help="developer option (sensitivity measurements): skip the committed regress replays so "
                             "that only generation and the exhaustive parts can find a change")
    args = parser.parse_args(argv)
    prop_id = args.prop.upper()
    try:
        seed = int(os.environ.get("VERIF_SEED") or "1")
    except ValueError:
        seed = 1
    started = time.time()

    try:
        mod = load_prop(prop_id)
    except BaseException:  # pylint: disable=broad-except
        print("HARNESS-ERROR property=%s import failed\n%s" % (prop_id, traceback.format_exc()))
        return 2

    # ---- single replay ------------------------------------------------------------
    if args.replay:
        ctx = Ctx(prop_id, args.tier, seed, replaying=True)
        try:
            replay_file(mod, ctx, args.replay)
        except PropertyFailure as exc:
            print("replay fails: %s" % exc.message)
            print("VIOLATION property=%s replay=%s" % (prop_id, args.replay))
            return 1
        except BaseException:  # pylint: disable=broad-except
            print("HARNESS-ERROR property=%s replay\n%s" % (prop_id, traceback.format_exc()))
            return 2
        print("replay passes: %s" % args.replay)
        return 0

    violations = []          # (message, replay path)
    known_lines = []
    known = read_known_findings().get(prop_id, {})

    # ---- regress tier: committed minimal reproductions, milliseconds ---------------
    regress_dir = os.path.join(ROOT, "regress", prop_id)
    regress_ctx = Ctx(prop_id, args.tier, seed, replaying=True)
    regress_n = 0
    if os.path.isdir(regress_dir) and not args.no_regress:
        for name in sorted(os.listdir(regress_dir)):
            if not name.endswith(".json"):
                continue
            path = os.path.join(regress_dir, name)
            regress_n += 1
            try:
                doc = replay_file(mod, regress_ctx, path)
            except PropertyFailure as exc:
                key = None
                try:
                    with open(path, encoding="utf-8") as fh:
                        key = json.load(fh).get("known_key")
                except Exception:  # pylint: disable=broad-except
                    pass
                if key and key in known:
                    known_lines.append("KNOWN-FINDING: property=%s key=%s %s" %
                                       (prop_id, key, known[key]))
                else:
                    violations.append((exc.message, os.path.relpath(path, ROOT)))
            except BaseException:  # pylint: disable=broad-except
                print("HARNESS-ERROR property=%s regress %s\n%s" %
                      (prop_id, name, traceback.format_exc()))
                return 2

    # ---- generated + exhaustive parts, sharded --------------------------------------
    if args.shards:
        nshards = args.shards
    elif args.tier == "thorough":
        nshards = getattr(mod, "THOROUGH_SHARDS", 16)
    else:
        nshards = getattr(mod, "QUICK_SHARDS", 1)
    nshards = max(1, min(nshards, (os.cpu_count() or 1)))
    jobs = [(prop_id, args.tier, seed if nshards == 1 else seed * 1000 + k, k, nshards)
            for k in range(nshards)]
    results = []
    if not violations:
        if nshards == 1:
            results = [_run_shard(jobs[0])]
        else:
            with multiprocessing.get_context("fork").Pool(nshards) as pool:
                results = pool.map(_run_shard, jobs, chunksize=1)

    harness = [r["harness_error"] for r in results if r["harness_error"]]
    merged = Ctx(prop_id, args.tier, seed)
    merged_nontrivial = set(regress_ctx.nontrivial)
    capped = False
    evaluations = regress_ctx.evaluations
    parts = collections.Counter(regress_ctx.parts)
    classes = collections.Counter(regress_ctx.classes)
    extra = collections.Counter()
    samples, class_samples, notes, exhaustive_parts = [], {}, {}, []
    for res in results:
        evaluations += res["evaluations"]
        merged_nontrivial |= res["nontrivial"]
        capped = capped or res["capped"]
        parts.update(res["parts"])
        classes.update(res["classes"])
        extra.update(res["extra"])
        for key, val in res["notes"].items():
            if isinstance(val, (int, float)) and isinstance(notes.get(key), (int, float)):
                notes[key] = max(notes[key], val)
            else:
                notes[key] = val
        for smp in res["samples"]:
            if len(samples) < MAX_SAMPLES:
                samples.append(smp)
        for cls, smp in res["class_samples"].items():
            class_samples.setdefault(cls, smp)
        exhaustive_parts.extend(res["exhaustive_parts"])
        if res["failure"]:
            fail = res["failure"]
            violations.append((fail["message"], os.path.relpath(write_replay(prop_id, fail), ROOT)))
    if not samples:
        samples = list(regress_ctx.samples)
    # merge exhaustive parts across shards
    ex_merged = collections.OrderedDict()
    for item in exhaustive_parts:
        cur = ex_merged.setdefault(item["part"], {"part": item["part"], "what": item["what"],
                                                  "cases": 0})
        cur["cases"] += item["cases"]

    missing = []
    if not violations and not harness:
        for cls in getattr(mod, "REQUIRED_CLASSES", []):
            if classes.get(cls, 0) == 0:
                missing.append(cls)

    wall = time.time() - started
    evidence = {
        "property_id": prop_id,
        "tier": args.tier,
        "seed": seed,
        "level": "exploration",
        "coverage": {
            "evaluations": evaluations,
            "distinct_nontrivial": len(merged_nontrivial),
            "distinct_nontrivial_is_lower_bound": capped,
            "rule": getattr(mod, "RULE", ""),
            "samples": samples,
            "class_samples": class_samples,
            "classes": dict(sorted(classes.items())),
            "parts": dict(parts),
            "exhaustive_parts": list(ex_merged.values()),
            "exhaustive": False,
            "regress_replayed": regress_n,
            "shards": nshards,
            "counters": dict(sorted(extra.items())),
            "notes": notes,
            "known_findings_reported": len(known_lines),
            "repo": REPO,
        },
        "assumptions": list(getattr(mod, "ASSUMPTIONS", [])),
        "wall_s": round(wall, 3),
        "violations": len(violations),
    }
    if not args.no_evidence and REPO == "/repo":
        os.makedirs(os.path.join(ROOT, "evidence"), exist_ok=True)
        with open(os.path.join(ROOT, "evidence", prop_id + ".json"), "w", encoding="utf-8") as fh:
            json.dump(evidence, fh, indent=1, sort_keys=True)
            fh.write("\n")

    print("%s tier=%s seed=%d shards=%d evaluations=%d distinct_nontrivial=%d wall=%.1fs" %
          (prop_id, args.tier, seed, nshards, evaluations, len(merged_nontrivial), wall))
    print("  parts: " + ", ".join("%s=%d" % kv for kv in parts.items()))
    print("  classes: " + ", ".join("%s=%d" % kv for kv in sorted(classes.items())))
    if extra:
        print("  counters: " + ", ".join("%s=%d" % kv for kv in sorted(extra.items())))
    for line in known_lines:
        print(line)
    if harness:
        print("HARNESS-ERROR property=%s\n%s" % (prop_id, harness[0]))
        return 2
    if violations:
        for message, path in violations:
            print("  failure: %s" % message.replace("\n", " | ")[:600])
            print("VIOLATION property=%s replay=%s" % (prop_id, path))
        return 1
    if missing:
        print("HARNESS-ERROR property=%s generator produced no case of class(es): %s" %
              (prop_id, ", ".join(missing)))
        return 2
    print("OK property=%s" % prop_id)
    return 0


if __name__ == "__main__":
    sys.exit(main())
