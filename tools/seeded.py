#!/venv/bin/python
"""Import and evaluate seeded regressions written by independent sub-agents.

  tools/seeded.py import /tmp/seed            copy out/<k>/ of every property into seeded/<ID>-<k>/
  tools/seeded.py run [ID-k ...] [--tier quick|thorough] [--all-tiers]
        for each seeded change: scratch copy of /repo's working tree + patch (never /repo itself),
        confirm (a) repo tests pass with the patch, (b) demo fails with it, (c) demo passes without it,
        then run ./check <ID> against the patched copy and record whether it raises VIOLATION.
Results are written to seeded/RESULTS.json and summarised on stdout.
"""
import argparse
import json
import os
import shutil
import subprocess
import sys
import tempfile
import time

HERE = os.path.dirname(os.path.dirname(os.path.abspath(__file__)))
SEEDED = os.path.join(HERE, "seeded")
PY = "/venv/bin/python"


def sh(cmd, cwd=None, env=None, timeout=3600):
    return subprocess.run(cmd, cwd=cwd, env=env, capture_output=True, text=True, timeout=timeout)


def do_import(src):
    n = 0
    for pid in sorted(os.listdir(src)):
        out = os.path.join(src, pid, "out")
        if not os.path.isdir(out):
            continue
        for k in sorted(os.listdir(out)):
            d = os.path.join(out, k)
            if not os.path.exists(os.path.join(d, "patch.diff")):
                continue
            # skip a change that was imported before (same patch text); otherwise take the next free number
            patch_text = open(os.path.join(d, "patch.diff"), encoding="utf-8", errors="replace").read()
            existing = [n for n in os.listdir(SEEDED) if n.startswith(pid + "-")]
            if any(open(os.path.join(SEEDED, n, "patch.diff"), encoding="utf-8", errors="replace").read()
                   == patch_text for n in existing if os.path.exists(os.path.join(SEEDED, n, "patch.diff"))):
                continue
            nxt = 1 + max([int(n.split("-")[1]) for n in existing] or [0])
            dst = os.path.join(SEEDED, "%s-%d" % (pid, nxt))
            os.makedirs(dst)
            for name in ("patch.diff", "demo.py", "meta.json"):
                if os.path.exists(os.path.join(d, name)):
                    shutil.copy(os.path.join(d, name), os.path.join(dst, name))
            n += 1
    print("imported %d seeded changes" % n)


BASE_COMMIT = "2734472"       # the tree every change under seeded/ and benign/ was written against


def scratch_with_patch(patch):
    """Scratch copy of /repo's working tree with the change applied.  A change written against BASE_COMMIT whose
    patch no longer applies (a later repair touched the same file) is carried over by a three-way merge per file
    (current <- base -> base+patch); if that conflicts, `rebased.diff` next to the patch (a hand-made port of the
    same change onto the current tree) is used, or - when a file `REBASE-THEIRS` sits next to it, for wholesale
    rewrites - the patched base version of the file replaces the current one."""
    tmp = tempfile.mkdtemp(prefix="plotink-seed-")
    for sub in ("plotink", "test"):
        shutil.copytree(os.path.join("/repo", sub), os.path.join(tmp, sub))
    sh(["git", "init", "-q"], cwd=tmp)
    res = sh(["git", "apply", "--whitespace=nowarn", patch], cwd=tmp)
    if res.returncode == 0:
        return tmp
    here = os.path.dirname(patch)
    rebased = os.path.join(here, "rebased.diff")
    if os.path.exists(rebased):
        res2 = sh(["git", "apply", "--whitespace=nowarn", rebased], cwd=tmp)
        if res2.returncode == 0:
            return tmp
        shutil.rmtree(tmp, ignore_errors=True)
        raise RuntimeError("rebased.diff does not apply: %s" % res2.stderr)
    base_dir = tempfile.mkdtemp(prefix="plotink-base-")
    try:
        files = sorted({line[6:].strip() for line in open(patch, encoding="utf-8", errors="replace")
                        if line.startswith("+++ b/")})
        for rel in files:
            shown = sh(["git", "-C", "/repo", "show", "%s:%s" % (BASE_COMMIT, rel)])
            os.makedirs(os.path.dirname(os.path.join(base_dir, "a", rel)), exist_ok=True)
            os.makedirs(os.path.dirname(os.path.join(base_dir, "b", rel)), exist_ok=True)
            for side in ("a", "b"):
                with open(os.path.join(base_dir, side, rel), "w", encoding="utf-8") as fh:
                    fh.write(shown.stdout if shown.returncode == 0 else "")
        sh(["git", "init", "-q"], cwd=os.path.join(base_dir, "b"))
        res3 = sh(["git", "apply", "--whitespace=nowarn", patch], cwd=os.path.join(base_dir, "b"))
        if res3.returncode != 0:
            raise RuntimeError("patch does not apply to %s either: %s" % (BASE_COMMIT, res3.stderr))
        theirs = os.path.exists(os.path.join(here, "REBASE-THEIRS"))
        for rel in files:
            cur = os.path.join(tmp, rel)
            if theirs or not os.path.exists(cur):
                os.makedirs(os.path.dirname(cur), exist_ok=True)
                shutil.copy(os.path.join(base_dir, "b", rel), cur)
                continue
            merged = sh(["git", "merge-file", "-q", cur, os.path.join(base_dir, "a", rel),
                         os.path.join(base_dir, "b", rel)])
            if merged.returncode != 0:
                raise RuntimeError("three-way merge of %s onto the current tree conflicts (%d hunks); add a "
                                   "rebased.diff" % (rel, merged.returncode))
        return tmp
    except RuntimeError:
        shutil.rmtree(tmp, ignore_errors=True)
        raise
    finally:
        shutil.rmtree(base_dir, ignore_errors=True)


def harvest(name, pid, replay_rel, tmp):
    """Keep the (shrunk) failing input as a permanent regress file if it fails on the patched copy, passes on
    /repo and is not already a committed regress file."""
    src = os.path.join(HERE, replay_rel)
    if not os.path.exists(src) or replay_rel.startswith("regress/"):
        return replay_rel if replay_rel.startswith("regress/") else None
    on_patch = sh([os.path.join(HERE, "check"), pid, "--replay", src], env=dict(os.environ, VERIF_REPO=tmp))
    on_repo = sh([os.path.join(HERE, "check"), pid, "--replay", src], env=dict(os.environ, VERIF_REPO="/repo"))
    if on_patch.returncode != 1 or on_repo.returncode != 0:
        return None
    doc = json.load(open(src, encoding="utf-8"))
    doc.pop("found_with_seed", None)
    doc["note"] = "shrunk failing input found by this check on seeded change %s; passes on the unchanged tree" % name
    dst_dir = os.path.join(HERE, "regress", pid)
    os.makedirs(dst_dir, exist_ok=True)
    dst = os.path.join(dst_dir, "seeded-%s.json" % name)
    with open(dst, "w", encoding="utf-8") as fh:
        json.dump(doc, fh, indent=1, sort_keys=True)
        fh.write("\n")
    return os.path.relpath(dst, HERE)


def run_one(name, tiers):
    d = os.path.join(SEEDED, name)
    pid = name.split("-")[0]
    meta_path = os.path.join(d, "meta.json")
    meta = json.load(open(meta_path, encoding="utf-8")) if os.path.exists(meta_path) else {}
    row = {"seeded": name, "property": pid, "summary": meta.get("summary", "")[:300]}
    try:
        tmp = scratch_with_patch(os.path.join(d, "patch.diff"))
    except RuntimeError as exc:
        row["error"] = str(exc)
        return row
    try:
        env = dict(os.environ, PYTHONPATH=tmp, PYTHONDONTWRITEBYTECODE="1")
        res = sh([PY, "-m", "pytest", "-q", "-p", "no:cacheprovider", "test"], cwd=tmp, env=env)
        row["tests_pass_with_patch"] = res.returncode == 0 and "33 passed" in res.stdout
        demo = os.path.join(d, "demo.py")
        res = sh([PY, demo], cwd=tmp, env=env, timeout=600)
        row["demo_fails_with_patch"] = res.returncode != 0
        res = sh([PY, demo], cwd="/repo", env=dict(os.environ, PYTHONPATH="/repo"), timeout=600)
        row["demo_passes_on_repo"] = res.returncode == 0
        row["confirmed"] = bool(row["tests_pass_with_patch"] and row["demo_fails_with_patch"]
                                and row["demo_passes_on_repo"])
        have_check = os.path.exists(os.path.join(HERE, "pbt", "props", pid.lower() + ".py"))
        row["checks"] = {}
        if have_check:
            def attempt(tier, extra):
                t0 = time.time()
                try:
                    res = sh([os.path.join(HERE, "check"), pid, "--tier", tier, "--no-evidence"] + extra,
                             env=dict(os.environ, VERIF_REPO=tmp, VERIF_SEED="1"), timeout=7200)
                    code = res.returncode
                    fail = [l.strip() for l in res.stdout.splitlines() if l.strip().startswith("failure:")]
                    viol = [l for l in res.stdout.splitlines() if l.startswith("VIOLATION")]
                    tail = res.stdout[-800:] if code == 2 else ""
                except subprocess.TimeoutExpired:
                    code, fail, viol, tail = -1, [], [], "timeout"
                return {"exit": code, "detected": code == 1 and bool(viol), "wall_s": round(time.time() - t0, 1),
                        "first_failure": (fail[0][:300] if fail else ""), "tail": tail,
                        "replay": (viol[0].split("replay=")[1].strip() if viol and "replay=" in viol[0] else "")}

            for tier in tiers:
                # 1. generation + exhaustive parts only (committed regress replays switched off): does the
                #    search itself find the change?
                got = attempt(tier, ["--no-regress"])
                got["how"] = "generated / exhaustive search"
                if not got["detected"] and got["exit"] == 0:
                    # 2. the registered command as it is: committed regress corpus included
                    again = attempt(tier, [])
                    if again["detected"]:
                        own = os.path.basename(again["replay"]) == "seeded-%s.json" % name
                        again["how"] = ("regress replay harvested from this very change (search alone missed it "
                                        "at this seed)" if own else "committed regress corpus (%s)" % again["replay"])
                        got = again
                row["checks"][tier] = got
                if got["detected"] and got["replay"] and not got["replay"].startswith("regress/"):
                    row["regress_file"] = harvest(name, pid, got["replay"], tmp)
                elif os.path.exists(os.path.join(HERE, "regress", pid, "seeded-%s.json" % name)):
                    row["regress_file"] = "regress/%s/seeded-%s.json" % (pid, name)
                if got["exit"] == 1:
                    break
    finally:
        shutil.rmtree(tmp, ignore_errors=True)
    return row


def cross_one(name, results):
    """Run every OTHER property's quick check against the change: shared code means a change aimed at one property
    often breaks a neighbouring one, and the neighbouring check may be the one that reports it."""
    d = os.path.join(SEEDED, name)
    pid = name.split("-")[0]
    tmp = scratch_with_patch(os.path.join(d, "patch.diff"))
    caught = []
    try:
        for other in sorted(f[:-3].upper() for f in os.listdir(os.path.join(HERE, "pbt", "props"))
                            if f.startswith("c") and f.endswith(".py")):
            if other == pid:
                continue
            res = sh([os.path.join(HERE, "check"), other, "--tier", "quick", "--no-evidence"],
                     env=dict(os.environ, VERIF_REPO=tmp, VERIF_SEED="1"), timeout=3600)
            if res.returncode == 1:
                fail = [l.strip() for l in res.stdout.splitlines() if l.strip().startswith("failure:")]
                caught.append({"check": other, "first_failure": fail[0][:240] if fail else ""})
    finally:
        shutil.rmtree(tmp, ignore_errors=True)
    results.setdefault(name, {})["caught_by_other_checks"] = caught
    return caught


def main():
    ap = argparse.ArgumentParser()
    ap.add_argument("cmd", choices=["import", "run", "cross"])
    ap.add_argument("names", nargs="*")
    ap.add_argument("--tier", default="quick")
    ap.add_argument("--all-tiers", action="store_true")
    args = ap.parse_args()
    if args.cmd == "import":
        do_import(args.names[0] if args.names else "/tmp/seed")
        return 0
    names = args.names or sorted(n for n in os.listdir(SEEDED)
                                 if os.path.isdir(os.path.join(SEEDED, n)))
    tiers = ["quick", "thorough"] if args.all_tiers else [args.tier]
    results_path = os.path.join(SEEDED, "RESULTS.json")
    results = {}
    if os.path.exists(results_path):
        results = json.load(open(results_path, encoding="utf-8"))
    if args.cmd == "cross":
        for name in names:
            caught = cross_one(name, results)
            print("%-8s caught by other checks: %s" % (name, ", ".join(c["check"] for c in caught) or "none"))
            with open(results_path, "w", encoding="utf-8") as fh:
                json.dump(results, fh, indent=1, sort_keys=True)
                fh.write("\n")
        return 0
    for name in names:
        row = run_one(name, tiers)
        if name in results and "caught_by_other_checks" in results[name]:
            row["caught_by_other_checks"] = results[name]["caught_by_other_checks"]
        results[name] = row
        chk = row.get("checks", {})
        det = [t for t, r in chk.items() if r["detected"]]
        status = ("detected@" + det[0]) if det else ("MISSED" if chk else "no-check-yet")
        if any(r["exit"] == 2 for r in chk.values()):
            status = "HARNESS-ERROR"
        print("%-8s confirmed=%-5s %-16s %s" % (name, row.get("confirmed"), status,
                                               (chk.get(det[0], {}).get("first_failure", "")[:120] if det else
                                                row.get("error", ""))))
        with open(results_path, "w", encoding="utf-8") as fh:
            json.dump(results, fh, indent=1, sort_keys=True)
            fh.write("\n")
    return 0


if __name__ == "__main__":
    sys.exit(main())
