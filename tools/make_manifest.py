#!/venv/bin/python
"""Regenerate MANIFEST.json from the table below and validate it against the schema.
A property is claimed iff pbt/props/<id>.py exists and the id is in CLAIMS."""
import json
import os
import sys

HERE = os.path.dirname(os.path.dirname(os.path.abspath(__file__)))

# id -> (technique, level text, level note, design ref)
CLAIMS = {
    "C01": ("Hypothesis property test + exhaustive small lattice; differential against a literal "
            "transcription of the firmware tick loop / exact integer closed form",
            "Generated-input search over the firmware-valid domain (constructive generator, T up to 2^32-1, "
            "ambient mpmath precision varied per case) with exact equality against an independent integer "
            "oracle; no counterexample among the generated cases and the complete small lattice. Exploration, "
            "not proof: it cannot establish absence, but the oracle is exact so every generated case is decided.",
            "Trusts the reference recurrence as transcribed from the property statement (loop == closed form "
            "asserted on every case with T <= 4096), Hypothesis, CPython integers.",
            "DESIGN.md §3.1, §4 C01"),
    "C02": ("Hypothesis property test + exhaustive small lattice; differential against the literal third-order "
            "tick loop / exact integer closed form; metamorphic jerk=0 == timed-move prediction",
            "Generated-input search over the firmware-valid T3 domain (vertex position, r_1 = 0 and r_1 = r_2 = 0 "
            "constructed explicitly; ambient mpmath precision varied) with exact equality of position, accumulator "
            "and end rate against an independent integer oracle. Exploration: decides every generated case "
            "exactly, cannot establish absence.",
            "Trusts the reference recurrence as transcribed from the statement (loop == closed form asserted for "
            "T <= 4096), Hypothesis, CPython integers.",
            "DESIGN.md §3.1, §4 C02"),
    "C03": ("Hypothesis property test with inverse-constructed moves + exhaustive small lattice; oracle = first "
            "tick at which the total variation of floor(A/2^31) reaches the budget (exact bisection, validated "
            "against a literal per-tick step counter); round trip through move_dist_lt",
            "Generated-input search aimed at the thin slices where the defects of the pinned tree lived "
            "(reversal right after tick 1, boundary landings after a reversal, explicit accumulators, legacy "
            "mirror). Found two root causes on the pinned tree (repaired, see KNOWN_FINDINGS.txt); on the "
            "repaired tree no counterexample. Exploration, exact oracle.",
            "Trusts the step-counting model stated in the property (steps = changes of floor(total/2^31) in "
            "either direction), the bisection (checked against the literal loop for durations <= 20000 ticks).",
            "DESIGN.md §4 C03, §5 F1 F2"),
    "C17": ("Hypothesis property test (vertex-placing generator, Phase.target on shortfall/|jerk| in the thorough "
            "tier) + exhaustive small lattice; oracle = exact discrete peak of the rate parabola",
            "Generated-input search over valid T3 moves with the extremum placed at the first ticks, last ticks, "
            "strictly inside and outside the move; four inequalities checked exactly in integers against the "
            "true per-tick peak. Exploration.",
            "Trusts the exact peak computation (ends + integers around the vertex; equals the tick loop for "
            "T <= 4096, asserted).",
            "DESIGN.md §3.1, §4 C17"),
    "C04": ("Hypothesis stateful (RuleBasedStateMachine) over call histories with injected faults + exhaustive "
            "method x fault x method grid; history invariants checked after every step against a scripted "
            "fake serial port",
            "Model-based generation of call histories on EBBMotionWrap (connect variants, disconnect, all 32 "
            "request methods, a fault armed at any I/O operation) with three invariants after every step: the "
            "first error is never replaced; a blocked request writes nothing, does not raise and returns its "
            "documented failure value; nothing is written after the error is recorded inside a call. The grid "
            "part is complete for fixed sample arguments. Found one defect on the pinned tree (repaired).",
            "The fake port observes every byte handed to write(); failure values are taken from the docstrings; "
            "real serial timing is not modelled.",
            "DESIGN.md §3.2, §4 C04, §5 F6"),
    "C05": ("Hypothesis property tests + exhaustive grids against an independent reference of the documented "
            "framing; per-method fault injection at every I/O operation; attribution sequences on a "
            "token-issuing simulated device; atheris byte-level fuzzing of the framing in the thorough tier",
            "Generated-input and fault search: request strings x reply streams decided by a reference written "
            "from the statement; every request method faulted at each of its reads/writes with every fault "
            "kind; request sequences with up to 25 empty reads per reply checked for attribution. Found three "
            "root causes on the pinned tree (repaired).",
            "Replies are ASCII lines; three documented leniencies (R/RB/BL exception swallowing, "
            "reboot/bootload not recording err, query_statusbyte single read) are not asserted against.",
            "DESIGN.md §3.2, §4 C05, §5 F3 F4 F5"),
    "C06": ("Hypothesis property test + exhaustive grids; byte-for-byte comparison of the fake port's write log "
            "with a table of documented command formats; differential between the legacy and the EBB3 layer",
            "Generated arguments (firmware ranges, zero/negative/absent optionals) for every helper of both "
            "layers, compared with an independent format table and across layers; complete enumeration of "
            "pauses -5..3000, resolutions, pins, clear values, HM positions and of motors_enable (r1,r2) x 20 "
            "prior board states. Found one root cause on the pinned tree (repaired).",
            "The format table is transcribed from the EBB command documentation quoted in the docstrings; "
            "the port acknowledges everything.",
            "DESIGN.md §4 C06, §5 F7"),
    "C07": ("Hypothesis stateful (RuleBasedStateMachine) against a conforming legacy-syntax device model with "
            "unique reply tokens and injected faults + exhaustive request-kind x empty-read grid",
            "Model-based histories of legacy command/query calls with 0..100 empty reads before each reply line "
            "and faults at any read/write; alignment is observable because every data line is unique. Found "
            "one root cause on the pinned tree (repaired).",
            "Device model written from the documented legacy reply shapes (data + OK, OK, single line for "
            "a/i/mr/pi/qm/qg/v); stalls (extra reads that only cost time) are invisible.",
            "DESIGN.md §3.2, §4 C07, §5 F8"),
    "C08": ("Hypothesis property test + exhaustive 7x7 lattice + committed corpus of failsafe-reaching inputs; "
            "oracle = exact rational Liang-Barsky bracketed by the rectangle shrunk/grown by 1e-9 x scale, with "
            "a conditioning rule for near-parallel crossings; deterministic line budget for termination",
            "Generated segments x rectangles across ten scales, large offsets, ulp-nudged edge/corner endpoints, "
            "degenerate rectangles and lines through corners; acceptance, on-segment, in-rectangle, orientation "
            "and coverage judged in exact rationals. Exploration with a stated tolerance.",
            "Defects smaller than 1e-9 x coordinate scale are invisible; coverage/acceptance are not demanded "
            "where the crossing angle is below ~1e-3 (ill-conditioned), counted in the evidence.",
            "DESIGN.md §3.3, §4 C08"),
    "C09": ("Hypothesis property test + exhaustive small lattice; oracle = identity-subsequence check and exact "
            "rational point-segment distances; differential between points_in_tolerance, "
            "max_dist_from_n_points and the exact maximum",
            "Generated vertex lists (lattice, noisy walks with back-steps, arcs, hooks, closed, repeated) x "
            "tolerances; every deleted vertex is judged exactly against its surviving neighbours; the predicate "
            "is pinned exactly on lattice inputs including exact ties.",
            "Continuous inputs use a 1e-9 relative tie band; the statement is one-directional (does not demand "
            "maximal deletion).",
            "DESIGN.md §3.3, §4 C09"),
    "C10": ("Hypothesis property test + hand-picked shapes; oracle = existence of a parse of the result into "
            "aligned dyadic restrictions of each original cubic (exact blossoming, memoised search) + exact "
            "flatness of every piece; deterministic line budget for termination",
            "Generated node lists (loops, cusps, retracted handles, repeated nodes, closed paths) x flatness; "
            "curve identity, survival of original nodes and flatness are judged in exact rationals without "
            "structural knowledge of the implementation. Exploration.",
            "Flatness/size >= 1e-4; control points within 1e-9 x scale of the exact restriction count as equal; "
            "termination observed up to a line budget.",
            "DESIGN.md §3.3, §4 C10"),
    "C11": ("Hypothesis property test + exhaustive align x meetOrSlice x defer x aspect x case grid; oracle = SVG 1.1 "
            "section 7.8 evaluated in exact rationals, compared through the documented application of the transform; "
            "atheris stage on the attribute text in the thorough tier",
            "Generated viewBox / preserveAspectRatio texts (separator, case and defer variants, equal / wider / taller "
            "aspect, negative origins, malformed and non-positive values) against a reference written from the SVG "
            "specification. Found one defect on the pinned tree (non-numeric viewBox raised; repaired). Exploration.",
            "Number tokens follow the SVG grammar; relative tolerance 1e-9 on mapped viewBox edges.",
            "DESIGN.md §4 C11, §5 F9"),
    "C12": ("Hypothesis property test + exhaustive numeral x unit x padding grid; oracle = exact decimal value of the "
            "numeral and the SVG unit table at 96 px/in in rationals; round trip through userUnitToUnits; differential "
            "across the four unit tables (unitsToUserUnits, userUnitToUnits, getLength, getLengthInches on a real lxml "
            "document); atheris stage on the text in the thorough tier",
            "Generated numerals in every SVG float syntax x all units x padding, plus malformed / unsupported-unit "
            "texts; every copy of the unit table is compared with the same exact reference, so a wrong constant in "
            "one copy for one unit is decided. Exploration.",
            "Relative tolerance 1e-12; magnitudes 1e-200..1e200; lower-case q is a consistent don't-care.",
            "DESIGN.md §4 C12"),
    "C13": ("Hypothesis-generated histories (index construction, then interleaved nearest queries and removals, shrunk "
            "as one value) against a model of the live ends + a reference grid read from the index's published "
            "geometry; exact rational distances; validity predicate rather than a single expected id",
            "Generated path sets (lattice, clusters, rows, page coordinates, floats over scales) x bins x reversal x "
            "query/removal histories with queries inside, on borders, outside on one or both axes and exactly at ends. "
            "Decides: None iff empty, liveness of the returned end, no neighbourhood end closer, global nearest when "
            "the neighbourhood is empty, true nearest within one cell width. Exploration.",
            "Ends within 1e-9 cell of a border make the neighbourhood clause a don't-care for that query (counted); "
            "distances compared with 1e-12 relative slack.",
            "DESIGN.md §4 C13"),
    "C14": ("Hypothesis property test + exhaustive small worlds (every multiset of <= 3 boxes from 24 lattice boxes x "
            "48 queries); oracle = brute-force closed-interval overlap, set equality; deterministic executed-line "
            "budget for termination of construction",
            "Lattice-heavy generated box collections (zero-extent boxes, boxes on split lines, hatch lines, plus "
            "signs, tile grids, nesting, mirror symmetry, duplicates) and queries that touch edges/corners exactly. "
            "Found one defect on the pinned tree (degenerate boxes lost; repaired). Exploration.",
            "Termination observed up to 80 boxes under a line budget; ids distinct.",
            "DESIGN.md §4 C14, §5 F10"),
    "C15": ("Exhaustive version grid (11^3 versions x 14 thresholds, both layers) + Hypothesis-generated versions; "
            "generated and exhaustive connect() handshake scripts on a fake serial.Serial / comports with injected "
            "open and probe faults and retries; legacy feature gates on a legacy board stub; oracle = integer-tuple "
            "order and the statement's accept/refuse table",
            "Version order, the connect gate (prompt / late / garbage-then-EBB / non-EBB / silent device x version x "
            "faults x lookups, followed by a request that must transmit nothing) and five legacy gates are decided "
            "against an independent reference. Exploration with exhaustive finite parts.",
            "ASCII replies; exceptions after verification are outside the statement; retried connect held to the "
            "lenient reading.",
            "DESIGN.md §4 C15"),
    "C16": ("Hypothesis-generated operation histories + exhaustive (r1,r2) x prior-state grid and boundary-int32 x "
            "slot grid against a simulated board (SL/QL, ST/QT, EM/QE, CU) reached through the real connect() "
            "handshake; oracle = byte-array / nickname / motor model compared with the board's state and with every "
            "read-back",
            "Write-then-read histories over int32 values (carry and sign boundaries), overlapping slots, nicknames "
            "with padding, motor requests from arbitrary prior motor states. Exploration with exhaustive finite parts.",
            "The simulated board follows the EM/SL/ST documentation quoted in plotink's docstrings.",
            "DESIGN.md §3.2, §4 C16"),
    "C18": ("Hypothesis property test + exhaustive half-integer lattice (8281 scalar tuples, 18252 2-D tuples); "
            "oracle = exact rational comparison with a 2-ulp don't-care only where bound +/- tolerance is not a float; "
            "differential point_in_bounds vs checkLimitsTol",
            "Values placed at each bound, bound +/- tolerance, one ulp either side, tiny relative overshoots at large "
            "bounds, degenerate ranges, ints and floats. Exploration.",
            "Finite arguments, lower <= upper, tolerance >= 0.",
            "DESIGN.md §4 C18"),
    "C19": ("Hypothesis property test over an OS-styled port-descriptor grammar + exhaustive ordered selections of "
            "<= 3 ports from a 10-shape catalogue, with comports() replaced by a stub; oracle = the statement's "
            "preference order written independently; differential legacy vs EBB3 layer",
            "First-board discovery, listing, and lookup by the library's own reported name / serial tag / device in "
            "every case variant, for both layers, on generated port lists (named, unnamed, Windows, pyserial 2.7, "
            "VID:PID-only, foreign, near-miss devices; prefix and case-variant names). Exploration.",
            "An earlier port containing the key anywhere releases the demand for the later board.",
            "DESIGN.md §4 C19"),
    "C20": ("Hypothesis property tests + exhaustive grids (all strings of <= 3 atoms; every quarter second in "
            "[0, 7300) s as seconds and milliseconds); oracle = round trip through expat and lxml modulo XML's own "
            "normalisation, and decode-and-compare of the leading duration field; atheris stage on the text in the "
            "thorough tier",
            "Strings over the XML Char production weighted on specials, pre-escaped entities and line ends; durations "
            "weighted on the 10 s switch and every n*60 - 0.5 carry, as int/float seconds and milliseconds. "
            "Exploration.",
            "Label wording after the numeric field is ignored; exact ties may round either way.",
            "DESIGN.md §4 C20"),
}

EXTRA = {
    "C01": 'Also: earlier calls with the same rates and another duration / accumulator in the same case (nothing may be remembered between calls).',
    "C02": 'Also: earlier calls with the same rates and another duration / accumulator in the same case.',
    "C03": 'Also: every call under a drawn ambient mpmath precision (15 digits by default - what a fresh interpreter has).',
    "C04": 'Also: every method warmed by one successful call before the fault, close() raising during disconnect, a witness on record_error (an error reported and later wiped), and 40 further failures after the latch.',
    "C05": 'Also: characters that mean something to string formatting (%, {}, $) in request text and replies.',
    "C06": 'Also: sequences of helper calls on one port / one object (repeated values, motors_enable included), delayed acknowledgements, and a validity predicate (not a fixed split) for pause chunks.',
    "C07": 'Also: data lines that are blank or begin with OK, requests longer than 64 bytes, an error reply followed by a link failure in the same exchange, and what query returns when the link raises after the data line was read.',
    "C08": 'Also: a second call with equal coordinates after the caller edited the returned segment in place, and tuple points. Acceptance is demanded only for rectangles at least 2 tol thick.',
    "C09": 'Also: lists of 60..200 vertices, loops that miss closure by float noise, power-of-two rescaling, strokes 1e5..1e9 tolerances long (conditioning-aware tie band), drawings translated 1e3..1e8 extents from the origin, tuple vertices.',
    "C10": "Also: tight hooks, flatness as a fraction of a piece's control-point distance, scales down to 1e-9, gently bowed strokes up to 1e9 flatnesses long, a loop whose midpoint is its own end node, paths translated up to 2^30 of their scale, tuple points.",
    "C11": 'Also: aspect ratios that differ by 1e-7..1e-3, and both sizes of one axis non-positive at once.',
    "C12": 'Also: digit-like characters that float() rejects among the malformed texts.',
    "C13": 'Also: a second index of another size built and used while the first is alive; tuple vertices.',
    "C14": "Also: geometric spirals 30..57 levels deep, geometric rows straddling a split line (F11, a second defect found and repaired), coordinates at the edge of the float range, None / 0 / '' as identifiers, every query asked of an index so far kept in the failing case.",
    "C15": 'Also: retried connect after a refusal, a prior good session on the same object, board swaps under one device name, the input-buffer flush raising.',
    "C16": 'Also: nicknames that differ only in case or contain Err.. / OK.. / % / {}; the same int32 value rewritten at overlapping slots.',
    "C17": 'Also: the same profile asked for other durations in a row, and the constructed coincidence r_T = -r_1.',
    "C18": 'Also: integers beyond 2^53 and the same bounds list updated in place between two calls.',
    "C19": "Also: an EBB3 object that scanned another list before, one-shot enumerators, foreign devices whose description starts like a board's name.",
    "C20": 'Also: U+FEFF / U+FDD0 and other single legal code points via the exhaustive atom grid and the fuzz stage; every quarter second up to 7300 s.',
}

NOT_YET = "check not built yet in this session (planned in DESIGN.md §4); not claimed until it runs green"


def main():
    props = [json.loads(l) for l in open(os.path.join(HERE, "properties.jsonl"), encoding="utf-8")]
    checks, na = [], []
    for prop in props:
        pid = prop["id"]
        have = os.path.exists(os.path.join(HERE, "pbt", "props", pid.lower() + ".py"))
        if pid in CLAIMS and have:
            technique, text, note, ref = CLAIMS[pid]
            checks.append({
                "property_id": pid,
                "quick_cmd": "./check %s --tier quick" % pid,
                "thorough_cmd": "./check %s --tier thorough" % pid,
                "evidence_file": "evidence/%s.json" % pid,
                "replay_cmd_template": "./check %s --replay {path}" % pid,
                "engine": "pbt-runner",
                "level_claimed": {"category": "exploration",
                                  "text": text + (" " + EXTRA[pid] if pid in EXTRA else "")
                                  + " Checked against 395 seeded regressions and 200 benign rewrites (DESIGN.md "
                                    "sections 10-11).",
                                  "design_ref": ref + ", §9-§11"},
                "level_note": note,
                "technique": technique,
            })
        else:
            na.append({"property_id": pid, "reason": NOT_YET})
    manifest = {
        "version": 1,
        "setup_cmd": "./setup.sh",
        "hooks": {
            "guard": "PLOTINK_VERIF",
            "enable": "no source hooks are needed: plotink is pure Python and is imported from /repo's "
                      "working tree by pbt/sut.py (sys.path[0] = $VERIF_REPO, default /repo); the serial "
                      "port, comports() and serial.Serial are replaced from outside for the duration of a "
                      "case. PLOTINK_VERIF=1 is exported by the harness but nothing in /repo reads it.",
            "baseline_off_cmd": "cd /repo && env -u PLOTINK_VERIF /venv/bin/python -m pytest -ra -q "
                                "-p no:cacheprovider --timeout=900 --continue-on-collection-errors",
            "source_commits": [],
            "add_only": True,
        },
        "engines": [
            {"name": "pbt-runner", "path": "pbt/runner.py",
             "serves_properties": [c["property_id"] for c in checks],
             "kind_free_text": "Hypothesis 6.168 (@given and RuleBasedStateMachine) + exhaustive enumeration "
                               "of finite sub-domains + committed regress replays; atheris stages in the "
                               "thorough tier of the text/byte-facing properties"},
        ],
        "checks": checks,
        "not_applicable": na,
        "notes": "All checks: ./check <ID> [--tier quick|thorough] [--replay FILE]; VERIF_SEED selects the "
                 "Hypothesis seed; exit 0 ok / 1 VIOLATION / 2 harness error. KNOWN_FINDINGS.txt lists "
                 "repaired defects (fixed:) and, if any, unrepaired ones (known:).",
    }
    # an empty list says it explicitly: every listed property is claimed (DESIGN.md section 9)
    path = os.path.join(HERE, "MANIFEST.json")
    with open(path, "w", encoding="utf-8") as fh:
        json.dump(manifest, fh, indent=1)
        fh.write("\n")
    try:
        import jsonschema
        schema = json.load(open("/root/.vp/MANIFEST.schema.json", encoding="utf-8"))
        jsonschema.validate(manifest, schema)
        print("MANIFEST.json valid: %d checks, %d not_applicable" % (len(checks), len(na)))
    except ImportError:
        print("MANIFEST.json written (jsonschema not importable here; not validated)")


if __name__ == "__main__":
    sys.exit(main())
