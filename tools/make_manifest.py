#!/venv/bin/python
"""Regenerate MANIFEST.json from the table below and validate it against the schema.
A property is claimed iff pbt/props/<id>.py exists and the id is in CLAIMS."""
import json
import os
import sys

HERE = os.path.dirname(os.path.dirname(os.path.abspath(__file__)))

# id -> (technique, level text, level note, design ref)
CLAIMS = {
    "C01": ("Hypothesis property test + exhaustive small lattice; differential against a literal "
            "transcription of the firmware tick loop / exact integer closed form",
            "Generated-input search over the firmware-valid domain (constructive generator, T up to 2^32-1, "
            "ambient mpmath precision varied per case) with exact equality against an independent integer "
            "oracle; no counterexample among the generated cases and the complete small lattice. Exploration, "
            "not proof: it cannot establish absence, but the oracle is exact so every generated case is decided.",
            "Trusts the reference recurrence as transcribed from the property statement (loop == closed form "
            "asserted on every case with T <= 4096), Hypothesis, CPython integers.",
            "DESIGN.md §3.1, §4 C01"),
    "C02": ("Hypothesis property test + exhaustive small lattice; differential against the literal third-order "
            "tick loop / exact integer closed form; metamorphic jerk=0 == timed-move prediction",
            "Generated-input search over the firmware-valid T3 domain (vertex position, r_1 = 0 and r_1 = r_2 = 0 "
            "constructed explicitly; ambient mpmath precision varied) with exact equality of position, accumulator "
            "and end rate against an independent integer oracle. Exploration: decides every generated case "
            "exactly, cannot establish absence.",
            "Trusts the reference recurrence as transcribed from the statement (loop == closed form asserted for "
            "T <= 4096), Hypothesis, CPython integers.",
            "DESIGN.md §3.1, §4 C02"),
    "C03": ("Hypothesis property test with inverse-constructed moves + exhaustive small lattice; oracle = first "
            "tick at which the total variation of floor(A/2^31) reaches the budget (exact bisection, validated "
            "against a literal per-tick step counter); round trip through move_dist_lt",
            "Generated-input search aimed at the thin slices where the defects of the pinned tree lived "
            "(reversal right after tick 1, boundary landings after a reversal, explicit accumulators, legacy "
            "mirror). Found two root causes on the pinned tree (repaired, see KNOWN_FINDINGS.txt); on the "
            "repaired tree no counterexample. Exploration, exact oracle.",
            "Trusts the step-counting model stated in the property (steps = changes of floor(total/2^31) in "
            "either direction), the bisection (checked against the literal loop for durations <= 20000 ticks).",
            "DESIGN.md §4 C03, §5 F1 F2"),
    "C17": ("Hypothesis property test (vertex-placing generator, Phase.target on shortfall/|jerk| in the thorough "
            "tier) + exhaustive small lattice; oracle = exact discrete peak of the rate parabola",
            "Generated-input search over valid T3 moves with the extremum placed at the first ticks, last ticks, "
            "strictly inside and outside the move; four inequalities checked exactly in integers against the "
            "true per-tick peak. Exploration.",
            "Trusts the exact peak computation (ends + integers around the vertex; equals the tick loop for "
            "T <= 4096, asserted).",
            "DESIGN.md §3.1, §4 C17"),
    "C04": ("Hypothesis stateful (RuleBasedStateMachine) over call histories with injected faults + exhaustive "
            "method x fault x method grid; history invariants checked after every step against a scripted "
            "fake serial port",
            "Model-based generation of call histories on EBBMotionWrap (connect variants, disconnect, all 32 "
            "request methods, a fault armed at any I/O operation) with three invariants after every step: the "
            "first error is never replaced; a blocked request writes nothing, does not raise and returns its "
            "documented failure value; nothing is written after the error is recorded inside a call. The grid "
            "part is complete for fixed sample arguments. Found one defect on the pinned tree (repaired).",
            "The fake port observes every byte handed to write(); failure values are taken from the docstrings; "
            "real serial timing is not modelled.",
            "DESIGN.md §3.2, §4 C04, §5 F6"),
    "C05": ("Hypothesis property tests + exhaustive grids against an independent reference of the documented "
            "framing; per-method fault injection at every I/O operation; attribution sequences on a "
            "token-issuing simulated device; atheris byte-level fuzzing of the framing in the thorough tier",
            "Generated-input and fault search: request strings x reply streams decided by a reference written "
            "from the statement; every request method faulted at each of its reads/writes with every fault "
            "kind; request sequences with up to 25 empty reads per reply checked for attribution. Found three "
            "root causes on the pinned tree (repaired).",
            "Replies are ASCII lines; three documented leniencies (R/RB/BL exception swallowing, "
            "reboot/bootload not recording err, query_statusbyte single read) are not asserted against.",
            "DESIGN.md §3.2, §4 C05, §5 F3 F4 F5"),
    "C06": ("Hypothesis property test + exhaustive grids; byte-for-byte comparison of the fake port's write log "
            "with a table of documented command formats; differential between the legacy and the EBB3 layer",
            "Generated arguments (firmware ranges, zero/negative/absent optionals) for every helper of both "
            "layers, compared with an independent format table and across layers; complete enumeration of "
            "pauses -5..3000, resolutions, pins, clear values, HM positions and of motors_enable (r1,r2) x 20 "
            "prior board states. Found one root cause on the pinned tree (repaired).",
            "The format table is transcribed from the EBB command documentation quoted in the docstrings; "
            "the port acknowledges everything.",
            "DESIGN.md §4 C06, §5 F7"),
    "C07": ("Hypothesis stateful (RuleBasedStateMachine) against a conforming legacy-syntax device model with "
            "unique reply tokens and injected faults + exhaustive request-kind x empty-read grid",
            "Model-based histories of legacy command/query calls with 0..100 empty reads before each reply line "
            "and faults at any read/write; alignment is observable because every data line is unique. Found "
            "one root cause on the pinned tree (repaired).",
            "Device model written from the documented legacy reply shapes (data + OK, OK, single line for "
            "a/i/mr/pi/qm/qg/v); stalls (extra reads that only cost time) are invisible.",
            "DESIGN.md §3.2, §4 C07, §5 F8"),
    "C08": ("Hypothesis property test + exhaustive 7x7 lattice + committed corpus of failsafe-reaching inputs; "
            "oracle = exact rational Liang-Barsky bracketed by the rectangle shrunk/grown by 1e-9 x scale, with "
            "a conditioning rule for near-parallel crossings; deterministic line budget for termination",
            "Generated segments x rectangles across ten scales, large offsets, ulp-nudged edge/corner endpoints, "
            "degenerate rectangles and lines through corners; acceptance, on-segment, in-rectangle, orientation "
            "and coverage judged in exact rationals. Exploration with a stated tolerance.",
            "Defects smaller than 1e-9 x coordinate scale are invisible; coverage/acceptance are not demanded "
            "where the crossing angle is below ~1e-3 (ill-conditioned), counted in the evidence.",
            "DESIGN.md §3.3, §4 C08"),
    "C09": ("Hypothesis property test + exhaustive small lattice; oracle = identity-subsequence check and exact "
            "rational point-segment distances; differential between points_in_tolerance, "
            "max_dist_from_n_points and the exact maximum",
            "Generated vertex lists (lattice, noisy walks with back-steps, arcs, hooks, closed, repeated) x "
            "tolerances; every deleted vertex is judged exactly against its surviving neighbours; the predicate "
            "is pinned exactly on lattice inputs including exact ties.",
            "Continuous inputs use a 1e-9 relative tie band; the statement is one-directional (does not demand "
            "maximal deletion).",
            "DESIGN.md §3.3, §4 C09"),
    "C10": ("Hypothesis property test + hand-picked shapes; oracle = existence of a parse of the result into "
            "aligned dyadic restrictions of each original cubic (exact blossoming, memoised search) + exact "
            "flatness of every piece; deterministic line budget for termination",
            "Generated node lists (loops, cusps, retracted handles, repeated nodes, closed paths) x flatness; "
            "curve identity, survival of original nodes and flatness are judged in exact rationals without "
            "structural knowledge of the implementation. Exploration.",
            "Flatness/size >= 1e-4; control points within 1e-9 x scale of the exact restriction count as equal; "
            "termination observed up to a line budget.",
            "DESIGN.md §3.3, §4 C10"),
}

NOT_YET = "check not built yet in this session (planned in DESIGN.md §4); not claimed until it runs green"


def main():
    props = [json.loads(l) for l in open(os.path.join(HERE, "properties.jsonl"), encoding="utf-8")]
    checks, na = [], []
    for prop in props:
        pid = prop["id"]
        have = os.path.exists(os.path.join(HERE, "pbt", "props", pid.lower() + ".py"))
        if pid in CLAIMS and have:
            technique, text, note, ref = CLAIMS[pid]
            checks.append({
                "property_id": pid,
                "quick_cmd": "./check %s --tier quick" % pid,
                "thorough_cmd": "./check %s --tier thorough" % pid,
                "evidence_file": "evidence/%s.json" % pid,
                "replay_cmd_template": "./check %s --replay {path}" % pid,
                "engine": "pbt-runner",
                "level_claimed": {"category": "exploration", "text": text, "design_ref": ref},
                "level_note": note,
                "technique": technique,
            })
        else:
            na.append({"property_id": pid, "reason": NOT_YET})
    manifest = {
        "version": 1,
        "setup_cmd": "./setup.sh",
        "hooks": {
            "guard": "PLOTINK_VERIF",
            "enable": "no source hooks are needed: plotink is pure Python and is imported from /repo's "
                      "working tree by pbt/sut.py (sys.path[0] = $VERIF_REPO, default /repo); the serial "
                      "port, comports() and serial.Serial are replaced from outside for the duration of a "
                      "case. PLOTINK_VERIF=1 is exported by the harness but nothing in /repo reads it.",
            "baseline_off_cmd": "cd /repo && env -u PLOTINK_VERIF /venv/bin/python -m pytest -ra -q "
                                "-p no:cacheprovider --timeout=900 --continue-on-collection-errors",
            "source_commits": [],
            "add_only": True,
        },
        "engines": [
            {"name": "pbt-runner", "path": "pbt/runner.py",
             "serves_properties": [c["property_id"] for c in checks],
             "kind_free_text": "Hypothesis 6.168 (@given and RuleBasedStateMachine) + exhaustive enumeration "
                               "of finite sub-domains + committed regress replays; atheris stages in the "
                               "thorough tier of the text/byte-facing properties"},
        ],
        "checks": checks,
        "not_applicable": na,
        "notes": "All checks: ./check <ID> [--tier quick|thorough] [--replay FILE]; VERIF_SEED selects the "
                 "Hypothesis seed; exit 0 ok / 1 VIOLATION / 2 harness error. KNOWN_FINDINGS.txt lists "
                 "repaired defects (fixed:) and, if any, unrepaired ones (known:).",
    }
    if not na:
        del manifest["not_applicable"]
    path = os.path.join(HERE, "MANIFEST.json")
    with open(path, "w", encoding="utf-8") as fh:
        json.dump(manifest, fh, indent=1)
        fh.write("\n")
    try:
        import jsonschema
        schema = json.load(open("/root/.vp/MANIFEST.schema.json", encoding="utf-8"))
        jsonschema.validate(manifest, schema)
        print("MANIFEST.json valid: %d checks, %d not_applicable" % (len(checks), len(na)))
    except ImportError:
        print("MANIFEST.json written (jsonschema not importable here; not validated)")


if __name__ == "__main__":
    sys.exit(main())
