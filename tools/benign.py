#!/venv/bin/python
"""Benign (property-preserving) changes written by independent sub-agents: the checks must stay quiet on them.

  tools/benign.py import /tmp/benign       copy out/<k>/ of every property into benign/<ID>-<k>/
  tools/benign.py run [ID-k ...] [--tier quick|thorough]
        scratch copy of /repo's working tree + patch (never /repo itself); confirm the repo tests and the author's own
        demo pass with and without the patch; run ./check <ID> against the copy; an alarm is written up for analysis
        (either the author was wrong and the property is broken, or the oracle over-reaches).
Results: benign/RESULTS.json.
"""
import argparse
import json
import os
import shutil
import sys
import time

HERE = os.path.dirname(os.path.dirname(os.path.abspath(__file__)))
sys.path.insert(0, HERE)
from tools.seeded import sh, scratch_with_patch, PY  # noqa: E402

BENIGN = os.path.join(HERE, "benign")


def do_import(src):
    n = 0
    os.makedirs(BENIGN, exist_ok=True)
    for pid in sorted(os.listdir(src)):
        out = os.path.join(src, pid, "out")
        if not os.path.isdir(out):
            continue
        for k in sorted(os.listdir(out)):
            d = os.path.join(out, k)
            if not all(os.path.exists(os.path.join(d, f)) for f in ("patch.diff", "demo.py", "meta.json")):
                continue
            patch_text = open(os.path.join(d, "patch.diff"), encoding="utf-8", errors="replace").read()
            existing = [n for n in os.listdir(BENIGN) if n.startswith(pid + "-")]
            if any(open(os.path.join(BENIGN, n, "patch.diff"), encoding="utf-8", errors="replace").read() == patch_text
                   for n in existing if os.path.exists(os.path.join(BENIGN, n, "patch.diff"))):
                continue
            dst = os.path.join(BENIGN, "%s-%d" % (pid, 1 + max([int(n.split("-")[1]) for n in existing] or [0])))
            os.makedirs(dst)
            for name in ("patch.diff", "demo.py", "meta.json", "argument.md"):
                if os.path.exists(os.path.join(d, name)):
                    shutil.copy(os.path.join(d, name), os.path.join(dst, name))
            n += 1
    print("imported %d benign changes" % n)


def run_one(name, tier):
    d = os.path.join(BENIGN, name)
    pid = name.split("-")[0]
    meta = json.load(open(os.path.join(d, "meta.json"), encoding="utf-8"))
    row = {"benign": name, "property": pid, "summary": str(meta.get("summary", ""))[:300]}
    try:
        tmp = scratch_with_patch(os.path.join(d, "patch.diff"))
    except RuntimeError as exc:
        row["error"] = str(exc)
        return row
    try:
        env = dict(os.environ, PYTHONPATH=tmp, PYTHONDONTWRITEBYTECODE="1")
        res = sh([PY, "-m", "pytest", "-q", "-p", "no:cacheprovider", "test"], cwd=tmp, env=env)
        row["tests_pass_with_patch"] = res.returncode == 0 and "33 passed" in res.stdout
        demo = os.path.join(d, "demo.py")
        row["demo_passes_with_patch"] = sh([PY, demo], cwd=tmp, env=env, timeout=900).returncode == 0
        row["demo_passes_on_repo"] = sh([PY, demo], cwd="/repo", env=dict(os.environ, PYTHONPATH="/repo"),
                                        timeout=900).returncode == 0
        t0 = time.time()
        res = sh([os.path.join(HERE, "check"), pid, "--tier", tier, "--no-evidence"],
                 env=dict(os.environ, VERIF_REPO=tmp, VERIF_SEED="1"), timeout=7200)
        fail = [l.strip() for l in res.stdout.splitlines() if l.strip().startswith("failure:")]
        row["check"] = {"tier": tier, "exit": res.returncode, "quiet": res.returncode == 0,
                        "wall_s": round(time.time() - t0, 1), "first_failure": fail[0][:400] if fail else "",
                        "tail": res.stdout[-600:] if res.returncode == 2 else ""}
    finally:
        shutil.rmtree(tmp, ignore_errors=True)
    return row


def main():
    ap = argparse.ArgumentParser()
    ap.add_argument("cmd", choices=["import", "run"])
    ap.add_argument("names", nargs="*")
    ap.add_argument("--tier", default="quick")
    args = ap.parse_args()
    if args.cmd == "import":
        do_import(args.names[0] if args.names else "/tmp/benign")
        return 0
    names = args.names or sorted(n for n in os.listdir(BENIGN) if os.path.isdir(os.path.join(BENIGN, n)))
    path = os.path.join(BENIGN, "RESULTS.json")
    results = json.load(open(path, encoding="utf-8")) if os.path.exists(path) else {}
    for name in names:
        row = run_one(name, args.tier)
        results[name] = row
        chk = row.get("check", {})
        status = "quiet" if chk.get("quiet") else ("ALARM" if chk.get("exit") == 1 else "error")
        print("%-8s tests=%-5s demo(patch)=%-5s demo(repo)=%-5s %-6s %s" % (
            name, row.get("tests_pass_with_patch"), row.get("demo_passes_with_patch"), row.get("demo_passes_on_repo"),
            status, chk.get("first_failure", "")[:140] or row.get("error", "")))
        with open(path, "w", encoding="utf-8") as fh:
            json.dump(results, fh, indent=1, sort_keys=True)
            fh.write("\n")
    return 0


if __name__ == "__main__":
    sys.exit(main())
