#!/venv/bin/python
"""Developer tool (DESIGN §8): apply hand-written mutants to a scratch copy of plotink and
expect `./check <ID> --tier quick` to exit 1 on each.  Never touches /repo.

usage: tools/sensitivity.py [ID ...] [--tests] [--tier quick|thorough] [--only NAME]
"""
import argparse
import os
import shutil
import subprocess
import sys
import tempfile
import time

HERE = os.path.dirname(os.path.dirname(os.path.abspath(__file__)))
sys.path.insert(0, HERE)
from tools.mutants import MUTANTS  # noqa: E402


def make_copy(src="/repo"):
    tmp = tempfile.mkdtemp(prefix="plotink-mut-")
    shutil.copytree(os.path.join(src, "plotink"), os.path.join(tmp, "plotink"))
    shutil.copytree(os.path.join(src, "test"), os.path.join(tmp, "test"))
    return tmp


def apply(tmp, edits):
    for rel, old, new in edits:
        path = os.path.join(tmp, rel)
        with open(path, encoding="utf-8") as fh:
            text = fh.read()
        if text.count(old) != 1:
            raise SystemExit("mutant edit does not apply exactly once in %s: %r (found %d)"
                             % (rel, old, text.count(old)))
        with open(path, "w", encoding="utf-8") as fh:
            fh.write(text.replace(old, new))


def main():
    ap = argparse.ArgumentParser()
    ap.add_argument("ids", nargs="*")
    ap.add_argument("--tests", action="store_true", help="also run the repo test suite on each mutant")
    ap.add_argument("--tier", default="quick")
    ap.add_argument("--only")
    ap.add_argument("--seed", default="1")
    args = ap.parse_args()
    ids = [i.upper() for i in args.ids] or sorted(MUTANTS)
    rows = []
    for pid in ids:
        for name, edits in MUTANTS.get(pid, []):
            if args.only and args.only != name:
                continue
            tmp = make_copy()
            try:
                apply(tmp, edits)
                tests = ""
                if args.tests:
                    res = subprocess.run(["/venv/bin/python", "-m", "pytest", "-q", "-x", "-p",
                                          "no:cacheprovider", "test"], cwd=tmp, capture_output=True,
                                         text=True, env=dict(os.environ, PYTHONPATH=tmp))
                    tests = "tests-pass" if res.returncode == 0 else "tests-FAIL"
                env = dict(os.environ, VERIF_REPO=tmp, VERIF_SEED=args.seed)
                t0 = time.time()
                res = subprocess.run([os.path.join(HERE, "check"), pid, "--tier", args.tier,
                                      "--no-evidence"], capture_output=True, text=True, env=env)
                dt = time.time() - t0
                viol = [l for l in res.stdout.splitlines() if l.startswith("VIOLATION")]
                fail = [l for l in res.stdout.splitlines() if l.strip().startswith("failure:")]
                status = {0: "SURVIVED", 1: "killed", 2: "HARNESS-ERROR"}.get(res.returncode, "?")
                rows.append((pid, name, status, tests, dt))
                print("%-4s %-44s %-13s %-10s %5.1fs  %s" % (pid, name, status, tests, dt,
                                                            (fail[0].strip()[:110] if fail else "")))
                if res.returncode == 2:
                    print(res.stdout[-1500:])
                    print(res.stderr[-1500:])
                # the replay must reproduce on the mutant and pass on the real tree
                if viol:
                    rp = viol[0].split("replay=")[1]
                    r2 = subprocess.run([os.path.join(HERE, "check"), pid, "--replay", rp],
                                        capture_output=True, text=True, env=env)
                    r3 = subprocess.run([os.path.join(HERE, "check"), pid, "--replay", rp],
                                        capture_output=True, text=True,
                                        env=dict(os.environ, VERIF_REPO="/repo"))
                    if r2.returncode != 1 or r3.returncode != 0:
                        print("     !! replay inconsistent: on mutant exit %d, on /repo exit %d"
                              % (r2.returncode, r3.returncode))
            finally:
                shutil.rmtree(tmp, ignore_errors=True)
    surv = [r for r in rows if r[2] != "killed"]
    print("\n%d mutants, %d killed, %d not killed" % (len(rows), len(rows) - len(surv), len(surv)))
    return 1 if surv else 0


if __name__ == "__main__":
    sys.exit(main())
