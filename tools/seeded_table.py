#!/venv/bin/python
"""Rewrite the table between <!-- SEEDED-TABLE --> markers in DESIGN.md from seeded/RESULTS.json + meta.json."""
import json
import os
import re

HERE = os.path.dirname(os.path.dirname(os.path.abspath(__file__)))


def key(name):
    pid, k = name.split("-")
    return pid, int(k)


def main():
    results = json.load(open(os.path.join(HERE, "seeded", "RESULTS.json"), encoding="utf-8"))
    jpath = os.path.join(HERE, "seeded", "JUDGEMENTS.json")
    judged = json.load(open(jpath, encoding="utf-8")) if os.path.exists(jpath) else {}
    outside = 0
    rows = ["| change | what was changed (one line) | needs, in order to manifest | confirmed | caught by | first failure reported |",
            "|---|---|---|---|---|---|"]
    caught = missed = 0
    for name in sorted(results, key=key):
        row = results[name]
        meta_path = os.path.join(HERE, "seeded", name, "meta.json")
        meta = json.load(open(meta_path, encoding="utf-8")) if os.path.exists(meta_path) else {}
        summary = re.sub(r"\s+", " ", meta.get("summary", ""))[:170].replace("|", "/")
        needs = re.sub(r"\s+", " ", meta.get("needs_to_manifest", ""))[:170].replace("|", "/")
        checks = row.get("checks", {})
        det = [t for t, r in checks.items() if r.get("detected")]
        if det:
            caught += 1
            by = "`./check %s` (%s tier, %.0f s; %s)" % (row["property"], det[0], checks[det[0]]["wall_s"],
                                                        checks[det[0]].get("how", "search"))
            first = checks[det[0]].get("first_failure", "").replace("failure: ", "")[:150].replace("|", "/")
        elif name in judged:
            outside += 1
            by = "not caught - judged outside the statement"
            others = [c["check"] for c in row.get("caught_by_other_checks", [])]
            if others:
                by += " (reported by `./check %s`)" % "`, `./check ".join(others)
            first = judged[name][:220].replace("|", "/")
        else:
            missed += 1
            by = "**not caught**" if checks else "no check"
            first = ""
        rows.append("| %s | %s | %s | %s | %s | %s |" % (name, summary, needs, "yes" if row.get("confirmed") else "NO",
                                                      by, first))
    rows.append("")
    rows.append("%d seeded changes: %d caught, %d not caught, %d judged to fall outside the statement (reasons in "
                "`seeded/JUDGEMENTS.json`)." % (caught + missed + outside, caught, missed, outside))
    table = "\n".join(rows)
    path = os.path.join(HERE, "DESIGN.md")
    text = open(path, encoding="utf-8").read()
    begin, end = "<!-- SEEDED-TABLE -->", "<!-- /SEEDED-TABLE -->"
    if begin not in text:
        raise SystemExit("markers missing in DESIGN.md")
    text = text[:text.index(begin) + len(begin)] + "\n" + table + "\n" + text[text.index(end):]
    open(path, "w", encoding="utf-8").write(text)
    print("%d rows, %d caught, %d missed, %d outside" % (caught + missed + outside, caught, missed, outside))


if __name__ == "__main__":
    main()
