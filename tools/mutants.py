"""Hand-written mutants per property: (name, [(file, old, new), ...]).  Each `old` must occur
exactly once in the file.  Used only by tools/sensitivity.py on scratch copies."""

CALC = "plotink/ebb_calc.py"

MUTANTS = {
    "C01": [
        ("drop-dps-30-in-lt", [(CALC, "    mpmath.mp.dps = 30 # Set decimal precision of 30.\n\n    half_accel = int(accel / 2) # Rounds towards zero\n\n    if accum == \"clear\": # Clear accumulator!\n        accum = 0       # Clear to zero\n        temp_rate = rate - int(accel / 2) + accel",
                               "    half_accel = int(accel / 2) # Rounds towards zero\n\n    if accum == \"clear\": # Clear accumulator!\n        accum = 0       # Clear to zero\n        temp_rate = rate - int(accel / 2) + accel")]),
        ("half-accel-floor", [(CALC, "    mpmath.mp.dps = 30 # Set decimal precision of 30.\n\n    half_accel = int(accel / 2) # Rounds towards zero\n\n    if accum == \"clear\"",
                               "    mpmath.mp.dps = 30 # Set decimal precision of 30.\n\n    half_accel = accel // 2\n\n    if accum == \"clear\"")]),
        ("clear-M-plus-1", [(CALC, "        if temp_rate < 0:\n            accum = 2147483647  # Clear to 2^31 - 1\n        elif temp_rate == 0:                    # Special case, if rate==0 during first step\n            if accel < 0:           # Then, check rate at second step.\n                accum = 2147483647",
                             "        if temp_rate < 0:\n            accum = 2147483647  # Clear to 2^31 - 1\n        elif temp_rate == 0:                    # Special case, if rate==0 during first step\n            if accel < 0:           # Then, check rate at second step.\n                accum = 2147483648")]),
        ("second-tick-sign", [(CALC, "            if accel < 0:           # Then, check rate at second step.\n                accum = 2147483647  # Clear to 2^31 - 1\n    else:\n        accum = int(accum)\n\n    # Account for difference in effective rate due to rounding of accel/2:\n    rate_effective = rate + mpmath.mpf(accel) / 2 - half_accel",
                               "            if accel > 0:           # Then, check rate at second step.\n                accum = 2147483647  # Clear to 2^31 - 1\n    else:\n        accum = int(accum)\n\n    # Account for difference in effective rate due to rounding of accel/2:\n    rate_effective = rate + mpmath.mpf(accel) / 2 - half_accel")]),
        ("float-accumulator", [(CALC, "    accum_final = mpmath.mpf(accum) + rate_effective * time +\\\n                mpmath.mpf(accel) * time * time / 2\n\n    pos_final = mpmath.floor(accum_final / mpmath.mpf(2147483648)) # Divide by 2^31 to get steps\n    accum_final -= 2147483648 * mpmath.mpf(pos_final)\n\n    return int(pos_final), int(accum_final)\n\n\ndef move_dist_t3",
                                "    accum_final = float(accum) + float(rate_effective) * time +\\\n                float(accel) * time * time / 2\n\n    pos_final = mpmath.floor(accum_final / mpmath.mpf(2147483648)) # Divide by 2^31 to get steps\n    accum_final -= 2147483648 * mpmath.mpf(pos_final)\n\n    return int(pos_final), int(accum_final)\n\n\ndef move_dist_t3")]),
        ("alias-drops-accumulator", [("plotink/ebb_motion.py", "    return ebb_calc.move_dist_lt(rate_in, accel_in, time_ticks, accum_in)",
                                      "    return ebb_calc.move_dist_lt(rate_in, accel_in, time_ticks, int(accum_in) if accum_in != 'clear' else 0)")]),
    ],
}

S3 = "plotink/ebb3_serial.py"
M3 = "plotink/ebb3_motion.py"
MUTANTS["C04"] = [
    ("record-error-overwrites", [(S3, "        if self.err is None:\n            self.err = message", "        self.err = message")]),
    ("connect-clears-error", [(S3, "        self._get_port_name(given_name)\n        if self.port_name is None:\n            return False", "        self.err = None\n        self._get_port_name(given_name)\n        if self.port_name is None:\n            return False")]),
    ("reboot-ignores-err", [(S3, "        if (self.port is None) or (self.err is not None):\n            return False\n        try:\n            self.port.write('RB", "        if self.port is None:\n            return False\n        try:\n            self.port.write('RB")]),
    ("command-guard-ignores-err", [(S3, "        if (self.port is None) or (self.err is not None) or (cmd is None):\n            return False", "        if (self.port is None) or (cmd is None):\n            return False")]),
    ("statusbyte-guard-port-only", [(S3, "        if (self.port is None) or (self.err is not None):\n            return None\n\n        response = ''\n        try:\n            self.port.write('QG", "        if self.port is None:\n            return None\n\n        response = ''\n        try:\n            self.port.write('QG")]),
    ("bootload-guard-err-only", [(S3, "        if (self.port is None) or (self.err is not None):\n            return False\n        try:\n            self.port.write('BL", "        if self.err is not None:\n            return False\n        try:\n            self.port.write('BL")]),
    ("var-read-int32-returns-zero", [(S3, "        if (self.port is None) or (self.err is not None):\n            return None\n\n        bytes_sequence = []", "        if (self.port is None) or (self.err is not None):\n            return 0\n\n        bytes_sequence = []")]),
    ("timed-pause-writes-directly", [(M3, "            self.command(f'SM,{time_delay},0,0')\n            pause_time -= time_delay", "            if self.command(f'SM,{time_delay},0,0') is None:\n                return\n            pause_time -= time_delay\n            if pause_time > 0 and self.port is not None:\n                self.port.write(b'')")]),
]

MUTANTS["C05"] = [
    ("retry-bound-5", [(S3, "            while len(response) == 0 and n_retry_count < 25:\n                # get new response to replace null response if necessary\n                response = self.port.readline().decode('ascii').strip()\n                n_retry_count += 1\n\n            if not response.startswith(cmd_name):",
                        "            while len(response) == 0 and n_retry_count < 5:\n                # get new response to replace null response if necessary\n                response = self.port.readline().decode('ascii').strip()\n                n_retry_count += 1\n\n            if not response.startswith(cmd_name):")]),
    ("query-retry-off-by-one", [(S3, "            while len(response) == 0 and n_retry_count < 25:\n                # get new response to replace null response if necessary\n                response = self.port.readline().decode('ascii').strip()\n                n_retry_count += 1\n\n        except (serial.SerialException, IOError, RuntimeError, OSError):\n            if qry_name",
                                 "            while len(response) == 0 and n_retry_count < 24:\n                # get new response to replace null response if necessary\n                response = self.port.readline().decode('ascii').strip()\n                n_retry_count += 1\n\n        except (serial.SerialException, IOError, RuntimeError, OSError):\n            if qry_name")]),
    ("startswith-to-in", [(S3, "        if ('Err:' in response) or (not response.startswith(qry_name)):", "        if ('Err:' in response) or (qry_name not in response):")]),
    ("strip-comma-unconditionally", [(S3, "        if len(response) > header_len:      # Response is longer than the query length.\n            if response[header_len] == ',': # Check if character after query is a comma.\n                header_len += 1             # If so, strip it out of response too.", "        header_len += 1")]),
    ("write-inside-retry-loop", [(S3, "                # get new response to replace null response if necessary\n                response = self.port.readline().decode('ascii').strip()\n                n_retry_count += 1\n\n            if not response.startswith(cmd_name):", "                # get new response to replace null response if necessary\n                self.port.write((cmd + '\\r').encode('ascii'))\n                response = self.port.readline().decode('ascii').strip()\n                n_retry_count += 1\n\n            if not response.startswith(cmd_name):")]),
    ("drop-oserror-from-query-except", [(S3, "        except (serial.SerialException, IOError, RuntimeError, OSError):\n            if qry_name", "        except (serial.SerialException, RuntimeError):\n            if qry_name")]),
    ("query-steps-tests-result-late", [(M3, "        result = self.query('QS') # Query global step position\n        if self.err:\n            return None\n", "        result = self.query('QS') # Query global step position\n")]),
    ("two-letter-name-for-digit", [(S3, "        elif cmd[1] == ',':\n            cmd_name = cmd[0]       # Case of single-letter command with arguments.", "        elif cmd[1] == ',' or cmd[1].isdigit():\n            cmd_name = cmd[0]       # Case of single-letter command with arguments.")]),
    ("dio-read-no-none-check", [(M3, "        response = self.query(f'PI,B,{pin}')\n        if response is None:\n            return None\n", "        response = self.query(f'PI,B,{pin}')\n")]),
    ("command-no-cr-strip", [(S3, "        cmd = cmd.strip() # Remove leading, trailing whitespace, if any.", "        cmd = cmd.strip(' ') # Remove leading, trailing whitespace, if any.")]),
]

SS = "plotink/ebb_serial.py"
EMO = "plotink/ebb_motion.py"
MUTANTS["C06"] = [
    ("sm-swap-dx-dy", [(EMO, "        str_output = 'SM,{0},{1},{2}\\r'.format(duration, delta_y, delta_x)", "        str_output = 'SM,{0},{1},{2}\\r'.format(duration, delta_x, delta_y)")]),
    ("ebb3-sm-swap", [(M3, "        str_output = f'SM,{duration},{delta_y},{delta_x}'", "        str_output = f'SM,{duration},{delta_x},{delta_y}'")]),
    ("hm-swap-positions", [(EMO, "            str_output = 'HM,{0},{1},{2}\\r'.format(rate, position1, position2)", "            str_output = 'HM,{0},{2},{1}\\r'.format(rate, position1, position2)")]),
    ("clamp-1-5", [(EMO, "    res = max(res, 0)\n    res = min(res, 5)", "    res = max(res, 1)\n    res = min(res, 5)")]),
    ("chunk-1000", [(M3, "            if pause_time > 750:\n                time_delay = 750", "            if pause_time > 1000:\n                time_delay = 1000")]),
    ("lm-suppress-or", [(EMO, "        if ((rate1 == 0 and accel1 == 0) or steps1 == 0) and\\\n                ((rate2 == 0 and accel2 == 0) or steps2 == 0):", "        if ((rate1 == 0 and accel1 == 0) or steps1 == 0) or\\\n                ((rate2 == 0 and accel2 == 0) or steps2 == 0):")]),
    ("sc-wrong-index", [(M3, '        self.command(f"SC,11,{pen_up_rate}")', '        self.command(f"SC,12,{pen_up_rate}")')]),
    ("pd-direction-dropped", [(M3, "        self.command(f'PD,B,{pin},{direction}') # Configure I/O pin as output or input", "        self.command(f'PD,B,{pin},0') # Configure I/O pin as output or input")]),
    ("abs-move-truthiness", [(M3, "        if (position1 is not None) and (position2 is not None):", "        if position1 and position2:")]),
    ("sr-state-truthiness", [(EMO, "        if state is None:\n            str_output = 'SR,{0}\\r'.format(timeout_ms)", "        if not state:\n            str_output = 'SR,{0}\\r'.format(timeout_ms)")]),
    ("motors-enable-em-order", [(M3, "        self.command(f'EM,{resolution_1},{resolution_2}')\n        # print", "        self.command(f'EM,{resolution_2},{resolution_1}')\n        # print")]),
]
MUTANTS["C07"] = [
    ("add-qs-to-no-ok", [(SS, '["a", "i", "mr", "pi", "qm", "qg", "v"]', '["a", "i", "mr", "pi", "qm", "qg", "v", "qs"]')]),
    ("retry-bound-10", [(SS, "            while len(response) == 0 and n_retry_count < 100:\n                # get new response to replace null response if necessary\n                response = port_name.readline().decode('ascii')\n                n_retry_count += 1\n            if cmd.split", "            while len(response) == 0 and n_retry_count < 10:\n                # get new response to replace null response if necessary\n                response = port_name.readline().decode('ascii')\n                n_retry_count += 1\n            if cmd.split")]),
    ("ok-skip-retry-99", [(SS, "                while len(unused_response) == 0 and n_retry_count < 100:", "                while len(unused_response) == 0 and n_retry_count < 99:")]),
    ("command-write-in-loop", [(SS, "                # get new response to replace null response if necessary\n                response = port_name.readline().decode('ascii')\n                n_retry_count += 1\n            if response.strip().startswith(\"OK\"):", "                # get new response to replace null response if necessary\n                port_name.write(cmd.encode('ascii'))\n                response = port_name.readline().decode('ascii')\n                n_retry_count += 1\n            if response.strip().startswith(\"OK\"):")]),
    ("query-except-narrowed", [(SS, "        except (serial.SerialException, IOError, RuntimeError, OSError) as err:\n            if verbose:\n                logger.error(\"Error reading serial data\")", "        except serial.SerialException as err:\n            if verbose:\n                logger.error(\"Error reading serial data\")")]),
    ("command-strips-request", [(SS, "            port_name.write(cmd.encode('ascii'))\n            response = port_name.readline().decode('ascii')\n            n_retry_count = 0\n            while len(response) == 0 and n_retry_count < 100:\n                # get new response to replace null response if necessary\n                response = port_name.readline().decode('ascii')\n                n_retry_count += 1\n            if response.strip()", "            port_name.write(cmd.strip().encode('ascii') + b'\\r')\n            response = port_name.readline().decode('ascii')\n            n_retry_count = 0\n            while len(response) == 0 and n_retry_count < 100:\n                # get new response to replace null response if necessary\n                response = port_name.readline().decode('ascii')\n                n_retry_count += 1\n            if response.strip()")]),
    ("query-returns-stripped-or-none", [(SS, "        return response\n    return None\n\n\ndef command", "        return response or None\n    return None\n\n\ndef command")]),
]

PU = "plotink/plot_utils.py"
MUTANTS["C08"] = [
    ("left-clips-at-xmax", [(PU, "            x_new = x_min  # Find intersection of our segment with x_min\n            slope = (y_2 - y_1) / (x_2 - x_1)\n            y_new = slope * (x_min - x_1) + y_1", "            x_new = x_min  # Find intersection of our segment with x_min\n            slope = (y_2 - y_1) / (x_2 - x_1)\n            y_new = slope * (x_max - x_1) + y_1")]),
    ("top-clips-at-ymax", [(PU, "            y_new = y_min  # Find intersection of our segment with y_min", "            y_new = y_max  # Find intersection of our segment with y_min")]),
    ("trivial-reject-or", [(PU, "        if code_1 & code_2:", "        if code_1 | code_2:")]),
    ("new-point-wrong-end", [(PU, "        if code == code_1:\n            x_1 = x_new\n            y_1 = y_new\n        else:\n            x_2 = x_new\n            y_2 = y_new", "        if code != code_1:\n            x_1 = x_new\n            y_1 = y_new\n        else:\n            x_2 = x_new\n            y_2 = y_new")]),
    ("region-code-ge", [(PU, "    if x_in > x_max:\n        code |= 2 # Right", "    if x_in >= x_max:\n        code |= 2 # Right")]),
    ("returns-reversed", [(PU, "        segment = [[x_1, y_1], [x_2, y_2]] # Now checking this clipped segment", "        segment = [[x_2, y_2], [x_1, y_1]] # Now checking this clipped segment")]),
    ("failsafe-rejects", [(PU, "            return True, segment # Avoids infinite loops near precision limits.", "            return False, segment # Avoids infinite loops near precision limits.")]),
    ("failsafe-removed", [(PU, "        if iterations > 3: # Failsafe; exit if the value has not converged;\n            return True, segment # Avoids infinite loops near precision limits.\n", "")]),
    ("failsafe-too-early", [(PU, "        if iterations > 3: # Failsafe", "        if iterations > 2: # Failsafe")]),
    ("bottom-slope-inverted", [(PU, "            y_new = y_max  # Find intersection of our segment with y_max\n            slope = (x_2 - x_1) / (y_2 - y_1)\n            x_new = slope * (y_max - y_1) + x_1", "            y_new = y_max  # Find intersection of our segment with y_max\n            slope = (x_2 - x_1) / (y_2 - y_1)\n            x_new = slope * (y_max - y_2) + x_1")]),
]

MUTANTS["C09"] = [
    ("slice-deletes-one-more", [(PU, "        vertices[start_index + 1:end_index - 1] = [] # delete", "        vertices[start_index + 1:end_index] = [] # delete")]),
    ("first-region-strict", [(PU, "            if ( dx_p_s0 * dx_p_s0 + dy_p_s0 * dy_p_s0 ) >= tol_squared:", "            if ( dx_p_s0 * dx_p_s0 + dy_p_s0 * dy_p_s0 ) > tol_squared:")]),
    ("second-region-measured-to-start", [(PU, "            if ((p_x - seg_1x)*(p_x - seg_1x) + (p_y - seg_1y)*(p_y - seg_1y)) >= tol_squared:", "            if ((p_x - seg_0x)*(p_x - seg_0x) + (p_y - seg_0y)*(p_y - seg_0y)) >= tol_squared:")]),
    ("perp-test-4x", [(PU, "        if (temp * temp / seg_length_squared) >= tol_squared:", "        if (temp * temp / seg_length_squared) >= 4 * tol_squared:")]),
    ("perp-strict", [(PU, "        if (temp * temp / seg_length_squared) >= tol_squared:", "        if (temp * temp / seg_length_squared) > tol_squared:")]),
    ("negative-tol-not-rejected", [(PU, "    if tolerance <= 0:\n        return\n\n    start_index = 0", "    if tolerance == 0:\n        return\n\n    start_index = 0")]),
    ("interior-skips-last", [(PU, "    for point in input_points[1:-1]: # All vertices except first and last", "    for point in input_points[1:-2]: # All vertices except first and last")]),
    ("copies-vertices", [(PU, "        vertices[start_index + 1:end_index - 1] = [] # delete (start_index, end_index), exclusive\n        start_index += 1", "        vertices[start_index + 1:end_index - 1] = [] # delete (start_index, end_index), exclusive\n        start_index += 1\n    vertices[:] = [list(v) for v in vertices]")]),
]

MUTANTS["C10"] = [
    ("handle-from-two-1", [(PU, "        s_p[i][0] = two[2]", "        s_p[i][0] = two[1]")]),
    ("inserted-node-from-one-1", [(PU, "        p_list = [one[2], one[3], two[1]]", "        p_list = [one[1], one[3], two[1]]")]),
    ("split-at-0.4", [(PU, "        one, two = bezmisc.beziersplitatt(b_list, 0.5)", "        one, two = bezmisc.beziersplitatt(b_list, 0.4)")]),
    ("flatness-skips-p2", [(PU, "            b_list = (p_0, p_1, p_2, p_3)\n\n            if not points_in_tolerance(b_list, flat):", "            b_list = (p_0, p_1, p_2, p_3)\n\n            if not points_in_tolerance((p_0, p_1, p_3), flat):")]),
    ("left-handle-not-updated", [(PU, "        s_p[i - 1][2] = one[1]\n", "")]),
    ("skip-after-split", [(PU, "        s_p[i:1] = [p_list]", "        s_p[i:1] = [p_list]\n        i += 1")]),
    ("flatness-doubled", [(PU, "            if not points_in_tolerance(b_list, flat):", "            if not points_in_tolerance(b_list, 2 * flat):")]),
]

MUTANTS["C11"] = [
    ("xmax-set-missing-member", [(PU, '    elif par_align in {"xmaxymin", "xmaxymid", "xmaxymax"}:', '    elif par_align in {"xmaxymin", "xmaxymax"}:')]),
    ("none-falls-through", [(PU, '    if par_align == "none":', '    if par_align == "None":')]),
    ("lower-removed", [(PU, "        par_array = p_a_r.strip().replace(',', ' ').lower().split()", "        par_array = p_a_r.strip().replace(',', ' ').split()")]),
    ("ymax-uses-half", [(PU, "            o_y = -min_y + excess_height\n", "            o_y = -min_y + excess_height / 2\n")]),
    ("defer-shifts-mos", [(PU, "                    if len(par_array) > 2:\n                        par_mos = par_array[2]", "                    if len(par_array) > 2:\n                        par_mos = par_array[1]")]),
    ("slice-scale-swapped", [(PU, "            or ((ar_doc < ar_vb) and (par_mos == \"slice\"))):", "            or ((ar_doc > ar_vb) and (par_mos == \"slice\"))):")]),
    ("none-offset-sign", [(PU, "        s_y = d_height / height\n        o_x = -min_x\n        o_y = -min_y\n        return s_x, s_y, o_x, o_y", "        s_y = d_height / height\n        o_x = -min_x\n        o_y = min_y\n        return s_x, s_y, o_x, o_y")]),
    ("doc-height-zero-allowed", [(PU, "    if d_width <= 0 or d_height <= 0:", "    if d_width <= 0 or d_height < 0:")]),
]

MUTANTS["C12"] = [
    ("getLengthInches-mm-2.54", [(PU, "        if unit == 'mm':\n            return float(value) / 25.4\n", "        if unit == 'mm':\n            return float(value) / 2.54\n")]),
    ("unitsToUserUnits-Q-100", [(PU, "        return float(value) * PX_PER_INCH / 101.6", "        return float(value) * PX_PER_INCH / 100.0")]),
    ("userUnitToUnits-pc-12", [(PU, "        return float(distance_uu) / (PX_PER_INCH / 6.0)", "        return float(distance_uu) / (PX_PER_INCH / 12.0)")]),
    ("percent-ignores-reference", [(PU, "        if percent_ref:\n            return float(value) * float(percent_ref) / 100.0\n        return float(value) / 100.0", "        return float(value) / 100.0")]),
    ("px-per-inch-90", [(PU, "PX_PER_INCH = 96.0", "PX_PER_INCH = 90.0")]),
    ("getLength-pt-uses-pc", [(PU, "        if unit == 'pt':\n            return float(value) * PX_PER_INCH / 72.0\n        if unit == '%':\n            return float(default)", "        if unit == 'pt':\n            return float(value) * PX_PER_INCH / 6.0\n        if unit == '%':\n            return float(default)")]),
    ("getLength-percent-no-100", [(PU, "            return float(default) * value / 100.0", "            return float(default) * value")]),
    ("parse-drops-Q", [(PU, "    elif string[-1:] == 'Q' or string[-1:] == 'q':", "    elif string[-1:] == 'q':")]),
    ("parse-percent-before-strip", [(PU, "    units = 'px'\n    string = string_to_parse.strip()\n", "    units = 'px'\n    string = string_to_parse.lstrip()\n")]),
    ("parse-bare-except-returns-zero", [(PU, "    try:\n        value = float(string)\n    except ValueError:\n        return None, None\n\n    return value, units", "    try:\n        value = float(string)\n    except ValueError:\n        return (None, None) if string else (0.0, units)\n\n    return value, units")]),
    ("inches-px-uses-90", [(PU, "            return float(value) / 96.0", "            return float(value) / 90.0")]),
    ("inches-accepts-percent", [(PU, "        if unit in ('', 'px'):\n            return float(value) / 96.0", "        if unit in ('', 'px', '%'):\n            return float(value) / 96.0")]),
    ("back-cm-as-mm", [(PU, "        return float(distance_uu) / (PX_PER_INCH / 2.54)", "        return float(distance_uu) / (PX_PER_INCH / 25.4)")]),
]

MUTANTS["C18"] = [
    ("checkLimits-upper-ge", [(PU, "    if value > upper_bound:\n        return upper_bound, True\n    if value < lower_bound:\n        return lower_bound, True", "    if value >= upper_bound:\n        return upper_bound, True\n    if value < lower_bound:\n        return lower_bound, True")]),
    ("tol-upper-only", [(PU, "        if value < (lower_bound - tolerance):", "        if value < lower_bound:")]),
    ("tol-ge", [(PU, "        if value > (upper_bound + tolerance):", "        if value >= (upper_bound + tolerance):")]),
    ("tol-returns-value-within-tol", [(PU, "        return upper_bound, False  # Truncate with no error", "        return value, False  # Truncate with no error")]),
    ("constrain-minmax-swapped", [(PU, "    return max(lower_bound, min(upper_bound, value))", "    return min(lower_bound, max(upper_bound, value))")]),
    ("pib-y-uses-xmax", [(PU, "    if y > y_max + tolerance:", "    if y > x_max + tolerance:")]),
    ("pib-strict-le", [(PU, "    if x < x_min - tolerance:\n        return False", "    if x <= x_min - tolerance:\n        return False")]),
    ("pib-default-tol-1e-6", [(PU, "def point_in_bounds(point, bounds, tolerance=1e-9):", "def point_in_bounds(point, bounds, tolerance=1e-6):")]),
    ("tol-lower-returns-upper", [(PU, "            return lower_bound, True  # Truncate & throw error", "            return upper_bound, True  # Truncate & throw error")]),
    ("tol-relative", [(PU, "        if value > (upper_bound + tolerance):", "        if value > (upper_bound + tolerance) * (1 + 1e-12):")]),
]

TU = "plotink/text_utils.py"
MUTANTS["C20"] = [
    ("amp-replaced-last", [(TU, "    new_text = input_text.replace('&','&amp;')\n    new_text = new_text.replace('<','&lt;')", "    new_text = input_text.replace('<','&lt;')\n    new_text = new_text.replace('&','&amp;')")]),
    ("apos-not-replaced", [(TU, "    new_text = new_text.replace(\"'\",'&apos;')\n", "")]),
    ("quot-as-apos", [(TU, "    new_text = new_text.replace('\"','&quot;')", "    new_text = new_text.replace('\"','&apos;')")]),
    ("round-to-int", [(TU, "    duration_rounded = int(round(duration))", "    duration_rounded = int(duration)")]),
    ("lt60-before-rounding", [(TU, "    duration_rounded = int(round(duration))\n    if duration_rounded < 60:", "    duration_rounded = int(round(duration))\n    if duration < 60:")]),
    ("ms-divisor-100", [(TU, "        duration = duration / 1000.0", "        duration = duration / 100.0")]),
    ("ten-second-switch-le", [(TU, "    if duration < 10:", "    if duration <= 10:")]),
    ("hours-threshold-3599", [(TU, "    if duration_rounded < 3600:", "    if duration_rounded <= 3600:")]),
    ("minutes-not-reduced", [(TU, "    h_elapsed, m_elapsed = divmod(m_elapsed, 60)", "    h_elapsed = m_elapsed // 60")]),
    ("ms-integer-division", [(TU, "        duration = duration / 1000.0", "        duration = duration // 1000")]),
    ("strip-input", [(TU, "    new_text = input_text.replace('&','&amp;')", "    new_text = input_text.strip().replace('&','&amp;')")]),
]

RT = "plotink/rtree.py"
MUTANTS["C14"] = [
    # NB: making only one quadrant test strict, moving the centre, or declaring leaves earlier are *equivalent*
    # mutants (every box still lands in some quadrant); they were tried and, correctly, raise no alarm.
    ("quadrants-all-strict", [(RT, "                if x_1 <= center_x and y_1 <= center_y\n", "                if x_1 < center_x and y_1 < center_y\n"),
                              (RT, "                if x_2 >= center_x and y_1 <= center_y\n", "                if x_2 > center_x and y_1 < center_y\n"),
                              (RT, "                if x_1 <= center_x and y_2 >= center_y\n", "                if x_1 < center_x and y_2 > center_y\n"),
                              (RT, "                if x_2 >= center_x and y_2 >= center_y\n", "                if x_2 > center_x and y_2 > center_y\n")]),
    ("quadrants-y-strict", [(RT, "                if x_1 <= center_x and y_1 <= center_y\n", "                if x_1 <= center_x and y_1 < center_y\n"),
                            (RT, "                if x_2 >= center_x and y_1 <= center_y\n", "                if x_2 >= center_x and y_1 < center_y\n"),
                            (RT, "                if x_1 <= center_x and y_2 >= center_y\n", "                if x_1 <= center_x and y_2 > center_y\n"),
                            (RT, "                if x_2 >= center_x and y_2 >= center_y\n", "                if x_2 >= center_x and y_2 > center_y\n")]),
    ("extent-xmin-from-xmax", [(RT, "            self.xmin = min(self.xmin, xmin)", "            self.xmin = min(self.xmin, xmax)")]),
    ("ids-list-not-deduped", [(RT, "        ids, (x_1, y_1, x_2, y_2) = set(), bbox", "        ids, (x_1, y_1, x_2, y_2) = set(), tuple(sorted(bbox[:2])) + tuple(sorted(bbox[2:]))")]),
    ("leaf-touching-dropped", [(RT, "            is_disjoint = x_1 > xmax or y_1 > ymax or x_2 < xmin or y_2 < ymin\n", "            is_disjoint = x_1 >= xmax or y_1 > ymax or x_2 < xmin or y_2 < ymin\n")]),
    ("subtree-prune-ge", [(RT, "            is_disjoint = x_1 > subt.xmax or y_1 > subt.ymax or x_2 < subt.xmin or y_2 < subt.ymin", "            is_disjoint = x_1 > subt.xmax or y_1 >= subt.ymax or x_2 < subt.xmin or y_2 < subt.ymin")]),
    ("leaf-never", [(RT, "        if max(map(len, sub_bboxes)) == len(bboxes):", "        if max(map(len, sub_bboxes)) > len(bboxes):")]),
    ("extent-ymax-from-ymin", [(RT, "            self.ymax = max(self.ymax, ymax)", "            self.ymax = max(self.ymax, ymin)")]),
    ("first-subtree-only", [(RT, "        for subt in self.subtrees:", "        for subt in self.subtrees[:3]:")]),
]

SG = "plotink/spatial_grid.py"
MUTANTS["C13"] = [
    ("reverse-bin-swapped", [(SG, "                x_bin = min(math.floor((x_2 - self.xmin) / self.bin_size_x), max_bin)\n                y_bin = min(math.floor((y_2 - self.ymin) / self.bin_size_y), max_bin)", "                x_bin = min(math.floor((x_2 - self.xmin) / self.bin_size_y), max_bin)\n                y_bin = min(math.floor((y_2 - self.ymin) / self.bin_size_x), max_bin)")]),
    ("adjacency-misses-diagonal", [(SG, "                    if y_row < max_bin:\n                        self.adjacents[index_i].append(index_i + self.bins_per_side + 1)\n", "")]),
    ("remove-forgets-reversed-end", [(SG, "        if self.reverse:\n            other_index = path_index + self.path_count\n            cell_number = self.lookup[other_index]\n            self.grid[cell_number].remove(other_index)", "        if self.reverse and path_index > 0:\n            other_index = path_index + self.path_count\n            cell_number = self.lookup[other_index]\n            self.grid[cell_number].remove(other_index)")]),
    ("dist-comparison-inverted-in-fallback", [(SG, "                    vertex = self.vertices[path_index][0]\n\n                dist = plot_utils.square_dist(vertex_in, vertex)\n                if dist < best_dist:", "                    vertex = self.vertices[path_index][0]\n\n                dist = plot_utils.square_dist(vertex_in, vertex)\n                if dist > best_dist or best_index is None:")]),
    ("query-clamp-missing-low", [(SG, "        x_bin = max(min(math.floor((vertex_in[0] - self.xmin) / self.bin_size_x), max_bin), 0)", "        x_bin = min(math.floor((vertex_in[0] - self.xmin) / self.bin_size_x), max_bin)")]),
    ("query-cell-off-by-one", [(SG, "        last_cell = x_bin + self.bins_per_side * y_bin\n\n        neighborhood_cells", "        last_cell = y_bin + self.bins_per_side * x_bin\n\n        neighborhood_cells")]),
    ("index0-returns-early-none", [(SG, "        if best_index:\n            return best_index\n", "        if best_index:\n            return best_index\n        best_dist = math.inf\n        best_index = None\n")]),
    ("reversed-vertex-uses-start", [(SG, "                if path_index >= self.path_count: # new path is reversed\n                    vertex = self.vertices[path_index - self.path_count][1]\n                else:\n                    vertex = self.vertices[path_index][0] # Beginning of next path", "                if path_index >= self.path_count: # new path is reversed\n                    vertex = self.vertices[path_index - self.path_count][0]\n                else:\n                    vertex = self.vertices[path_index][0] # Beginning of next path")]),
    # "shim not applied to xmax/ymax" is an equivalent mutant (ends on the far border are clamped into the last
    # cell; the oracle reads the published geometry) and, correctly, raises no alarm.
    ("lookup-start-not-recorded", [(SG, "            self.lookup[index_i] = grid_index # Which grid cell is the path start in?", "            self.lookup[index_i] = x_bin # Which grid cell is the path start in?")]),
    ("extent-ignores-ends-when-reverse", [(SG, "            if reverse:\n                self.xmin = min(self.xmin, x_2)\n                xmax = max(xmax, x_2)", "            if reverse:\n                self.xmin = min(self.xmin, x_2)\n                xmax = max(xmax, x_1)")]),
]

E3S = "plotink/ebb3_serial.py"
ELS = "plotink/ebb_serial.py"
MUTANTS["C19"] = [
    # tried and equivalent (no alarm, correctly): reported name keeps a trailing blank; first SER= test disabled
    # (the duplicated test after the no-op replace() still matches).
    ("legacy-second-pass-first", [(ELS, "        if port[1].startswith(\"EiBotBoard\"):\n            ebb_port = port[0]  # Success; EBB found by name match.\n            break  # stop searching-- we are done.\n    if ebb_port is None:", "        if port[2].startswith(\"USB VID:PID=04D8:FD92\"):\n            ebb_port = port[0]  # Success; EBB found by name match.\n            break  # stop searching-- we are done.\n    if ebb_port is None:")]),
    ("legacy-slice-10", [(ELS, "            p_1 = p_1[11:]\n            if p_1.startswith(plower):", "            p_1 = p_1[10:]\n            if p_1.startswith(plower):")]),
    ("ebb3-lower-dropped", [(E3S, "    needle = needle.lower()\n    needle2 = needle2.lower()\n    plower = port_name.lower()", "    needle2 = needle2.lower()\n    plower = port_name.lower()")]),
    ("ebb3-first-break-removed", [(E3S, "            if port[1].startswith(\"EiBotBoard\"):\n                ebb_port = port[0]  # Success; EBB found by name match.\n                break               # stop searching-- we are done.", "            if port[1].startswith(\"EiBotBoard\"):\n                ebb_port = port[0]  # Success; EBB found by name match.")]),
    ("legacy-listing-name-only", [(ELS, "        elif port[2].startswith(\"USB VID:PID=04D8:FD92\"):\n            port_has_ebb = True\n        if port_has_ebb:\n            ebb_ports_list.append(port)\n    if ebb_ports_list:\n        return ebb_ports_list\n    return None\n\n\ndef list_named_ebbs", "        if port_has_ebb:\n            ebb_ports_list.append(port)\n    if ebb_ports_list:\n        return ebb_ports_list\n    return None\n\n\ndef list_named_ebbs")]),
    ("ebb3-listing-in-not-startswith", [(E3S, "        elif port[2].startswith(\"USB VID:PID=04D8:FD92\"):\n            port_has_ebb = True", "        elif \"USB VID:PID=04D8:FD92\" in port[2]:\n            port_has_ebb = True")]),
    ("ebb3-device-match-case-sensitive", [(E3S, "        p_0 = port[0].lower()\n        p_1 = port[1].lower()\n        p_2 = port[2].lower()\n\n        if (needle in p_2) or (needle2 in p_1):", "        p_0 = port[0]\n        p_1 = port[1].lower()\n        p_2 = port[2].lower()\n\n        if (needle in p_2) or (needle2 in p_1):")]),
    ("ebb3-find-first-vidpid-lowercase", [(E3S, "                if port[2].startswith(\"USB VID:PID=04D8:FD92\"):\n                    ebb_port = port[0]  # Success; EBB found by VID/PID match.", "                if port[2].upper().startswith(\"USB VID:PID=04D8:FD92\"):\n                    ebb_port = port[0]  # Success; EBB found by VID/PID match.")]),
]

MUTANTS["C15"] = [
    ("legacy-compares-strings", [(ELS, "        if parse(ebb_version_string) >= parse(version_string):", "        if ebb_version_string >= version_string:")]),
    ("ebb3-compares-strings", [(E3S, "        if self.version_parsed >= parsed_version_string:", "        if self.version >= version_string:")]),
    ("min-version-3.0.10", [(E3S, 'MIN_VERSION_STRING = "3.0.2"', 'MIN_VERSION_STRING = "3.0.10"')]),
    ("connect-true-before-version-check", [(E3S, "        self.parse_version(str_version) # Parse firmware version\n\n        if not self.min_version(self.MIN_VERSION_STRING):", "        self.parse_version(str_version) # Parse firmware version\n\n        if self.min_version(self.MIN_VERSION_STRING) is False and False:")]),
    ("old-firmware-no-error-recorded", [(E3S, "            self.record_error(error_msg)\n            return False", "            return False")]),
    ("second-probe-removed", [(E3S, "            if not verified:\n                # Second try at verifying connection, if first has failed:\n                self.port.write('v\\r'.encode('ascii'))    # Request version string.\n                str_version = self.port.readline().decode('ascii').strip()\n                if str_version:\n                    if \"EBB\" in str_version:\n                        verified = True\n", "")]),
    ("cu-sent-before-version-check", [(E3S, "        self.parse_version(str_version) # Parse firmware version\n", "        self.parse_version(str_version) # Parse firmware version\n        self.port.write( \"CU,10,1\\r\".encode('ascii'))\n        self.port.readline()\n")]),
    ("servo-gate-is-not-none", [("plotink/ebb_motion.py", "        if not ebb_serial.min_version(port_name, \"2.6.0\"):\n            return      # Unable", "        if ebb_serial.min_version(port_name, \"2.6.0\") is None:\n            return      # Unable")]),
    ("voltage-gate-2.2.30", [("plotink/ebb_motion.py", 'ebb_serial.min_version(port_name, "2.2.3")', 'ebb_serial.min_version(port_name, "2.2.30")')]),
    ("nickname-gate-dropped", [(ELS, "        version_status = min_version(port_name, \"2.5.5\")\n\n        if version_status:\n            try:\n                cmd = 'ST,' + nickname + '\\r'", "        version_status = True\n\n        if version_status:\n            try:\n                cmd = 'ST,' + nickname + '\\r'")]),
    ("verified-on-any-reply", [(E3S, "            if str_version:\n                if \"EBB\" in str_version:\n                    verified = True\n\n            if not verified:", "            if str_version:\n                verified = True\n\n            if not verified:")]),
    ("not-verified-no-error", [(E3S, "        if not verified:\n            self.record_error(f\"Failed to connect via USB (port name: {self.port_name})\")\n            self.disconnect()", "        if not verified:\n            self.disconnect()")]),
    ("reboot-gate-le", [(ELS, "        version_status = min_version(port_name, \"2.5.5\")\n        if version_status:\n            try:\n                command(port_name,'RB\\r')", "        version_status = min_version(port_name, \"2.5.50\")\n        if version_status:\n            try:\n                command(port_name,'RB\\r')")]),
]

MUTANTS["C16"] = [
    ("write-little-endian", [(E3S, "        bytes_sequence = value.to_bytes(4, byteorder='big', signed=True)", "        bytes_sequence = value.to_bytes(4, byteorder='little', signed=True)")]),
    ("read-unsigned", [(E3S, "        return int.from_bytes(bytes_sequence, byteorder='big', signed=True)", "        return int.from_bytes(bytes_sequence, byteorder='big', signed=False)")]),
    ("both-little-endian", [(E3S, "        bytes_sequence = value.to_bytes(4, byteorder='big', signed=True)", "        bytes_sequence = value.to_bytes(4, byteorder='little', signed=True)"),
                            (E3S, "        return int.from_bytes(bytes_sequence, byteorder='big', signed=True)", "        return int.from_bytes(bytes_sequence, byteorder='little', signed=True)")]),
    ("slot-increment-skipped", [(E3S, "            self.var_write(byte, start_index)\n            start_index += 1", "            self.var_write(byte, start_index)\n            start_index += 1 if byte else 0")]),
    ("old-res-motor2-first", [(M3, "            if motor_res[1] != 0:\n                old_res = motor_res[1]\n            if motor_res[0] != 0:\n                old_res = motor_res[0]\n\n            if old_res != resolution_2:", "            if motor_res[1] != 0:\n                old_res = motor_res[1]\n            if motor_res[0] != 0:\n                old_res = motor_res[0]\n\n            if old_res != resolution_2 and old_res != 0:")]),
    ("presetting-removed", [(M3, "            if old_res != resolution_2:\n                # print(f'Sending: EM,{resolution_2},{resolution_2}')\n                self.command(f'EM,{resolution_2},{resolution_2}')\n", "")]),
    ("res-map-entry-wrong", [(M3, "        res_map = {16: 1, 8: 2, 4: 3, 2: 4, 1: 5, 0:0}", "        res_map = {16: 1, 8: 2, 4: 3, 2: 5, 1: 4, 0:0}")]),
    ("clamp-upper-4", [(M3, "        resolution_1 = min(resolution_1, 5)", "        resolution_1 = min(resolution_1, 4)")]),
    ("nickname-not-trimmed-on-read", [(E3S, "                self.name = str(raw_string).strip()", "                self.name = str(raw_string).lower().strip()")]),
    ("var-read-wraps-signed-byte", [(E3S, "        return int(value)\n\n\n    def var_write_int32", "        return int(value) if int(value) < 128 else int(value) - 256\n\n\n    def var_write_int32")]),
    ("query-enabled-swapped", [(M3, "        return res_map[int(res_list[0])], res_map[int(res_list[1])]", "        return res_map[int(res_list[1])], res_map[int(res_list[0])]")]),
]


# ---- state carried between calls (memo keyed without one argument): caught by the "earlier calls" variations
MUTANTS["C01"].append(("memo-ignores-accumulator", [(CALC, "def move_dist_lt(rate, accel, time, accum=\"clear\"):", "_LT_MEMO = {}\n\n\ndef move_dist_lt(rate, accel, time, accum=\"clear\"):\n    key = (rate, accel, time, accum == \"clear\")\n    if key not in _LT_MEMO:\n        if len(_LT_MEMO) > 64:\n            _LT_MEMO.clear()\n        _LT_MEMO[key] = _move_dist_lt(rate, accel, time, accum)\n    return _LT_MEMO[key]\n\n\ndef _move_dist_lt(rate, accel, time, accum=\"clear\"):")]))
