"""Hand-written mutants per property: (name, [(file, old, new), ...]).  Each `old` must occur
exactly once in the file.  Used only by tools/sensitivity.py on scratch copies."""

CALC = "plotink/ebb_calc.py"

MUTANTS = {
    "C01": [
        ("drop-dps-30-in-lt", [(CALC, "    mpmath.mp.dps = 30 # Set decimal precision of 30.\n\n    half_accel = int(accel / 2) # Rounds towards zero\n\n    if accum == \"clear\": # Clear accumulator!\n        accum = 0       # Clear to zero\n        temp_rate = rate - int(accel / 2) + accel",
                               "    half_accel = int(accel / 2) # Rounds towards zero\n\n    if accum == \"clear\": # Clear accumulator!\n        accum = 0       # Clear to zero\n        temp_rate = rate - int(accel / 2) + accel")]),
        ("half-accel-floor", [(CALC, "    mpmath.mp.dps = 30 # Set decimal precision of 30.\n\n    half_accel = int(accel / 2) # Rounds towards zero\n\n    if accum == \"clear\"",
                               "    mpmath.mp.dps = 30 # Set decimal precision of 30.\n\n    half_accel = accel // 2\n\n    if accum == \"clear\"")]),
        ("clear-M-plus-1", [(CALC, "        if temp_rate < 0:\n            accum = 2147483647  # Clear to 2^31 - 1\n        elif temp_rate == 0:                    # Special case, if rate==0 during first step\n            if accel < 0:           # Then, check rate at second step.\n                accum = 2147483647",
                             "        if temp_rate < 0:\n            accum = 2147483647  # Clear to 2^31 - 1\n        elif temp_rate == 0:                    # Special case, if rate==0 during first step\n            if accel < 0:           # Then, check rate at second step.\n                accum = 2147483648")]),
        ("second-tick-sign", [(CALC, "            if accel < 0:           # Then, check rate at second step.\n                accum = 2147483647  # Clear to 2^31 - 1\n    else:\n        accum = int(accum)\n\n    # Account for difference in effective rate due to rounding of accel/2:\n    rate_effective = rate + mpmath.mpf(accel) / 2 - half_accel",
                               "            if accel > 0:           # Then, check rate at second step.\n                accum = 2147483647  # Clear to 2^31 - 1\n    else:\n        accum = int(accum)\n\n    # Account for difference in effective rate due to rounding of accel/2:\n    rate_effective = rate + mpmath.mpf(accel) / 2 - half_accel")]),
        ("float-accumulator", [(CALC, "    accum_final = mpmath.mpf(accum) + rate_effective * time +\\\n                mpmath.mpf(accel) * time * time / 2\n\n    pos_final = mpmath.floor(accum_final / mpmath.mpf(2147483648)) # Divide by 2^31 to get steps\n    accum_final -= 2147483648 * mpmath.mpf(pos_final)\n\n    return int(pos_final), int(accum_final)\n\n\ndef move_dist_t3",
                                "    accum_final = float(accum) + float(rate_effective) * time +\\\n                float(accel) * time * time / 2\n\n    pos_final = mpmath.floor(accum_final / mpmath.mpf(2147483648)) # Divide by 2^31 to get steps\n    accum_final -= 2147483648 * mpmath.mpf(pos_final)\n\n    return int(pos_final), int(accum_final)\n\n\ndef move_dist_t3")]),
        ("alias-drops-accumulator", [("plotink/ebb_motion.py", "    return ebb_calc.move_dist_lt(rate_in, accel_in, time_ticks, accum_in)",
                                      "    return ebb_calc.move_dist_lt(rate_in, accel_in, time_ticks, int(accum_in) if accum_in != 'clear' else 0)")]),
    ],
}
