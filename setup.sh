#!/bin/sh
# Offline, idempotent: make sure hypothesis is importable from /venv and (best effort)
# put atheris beside the framework in /verif/.deps for the thorough-tier fuzz stages.
HERE="$(cd "$(dirname "$0")" && pwd)"
export PIP_NO_INDEX=1
if ! /venv/bin/python -c "import hypothesis" 2>/dev/null; then
  /venv/bin/pip install --no-index --find-links /opt/veriftools/wheels hypothesis || exit 1
fi
if ! PYTHONPATH="$HERE/.deps" /venv/bin/python -c "import atheris" 2>/dev/null; then
  /venv/bin/pip install --no-index --find-links /opt/veriftools/wheels --target "$HERE/.deps" atheris \
    >/dev/null 2>&1 || echo "setup: atheris unavailable; fuzz stages will report 'unavailable'"
fi
/venv/bin/python -c "import hypothesis, serial, mpmath, lxml; print('setup ok: hypothesis', hypothesis.__version__)"
